/*
 * catmt - multi-threaded harness for C17 (DESIGN.md section 6, C17).
 *
 * One service thread runs cat_service (with command traffic and output back-pressure), P producer threads call the
 * locking API concurrently (trigger / is_full / is_busy / is_hold / hold_exit).  The mutex interface is a real
 * pthread mutex.  Every critical section (lock .. unlock) gets a sequence number taken under the lock; the
 * CAT_VERIF_TOUCH hook of the library reports every access to shared state together with "does the toucher own the
 * lock".  The ndjson output lists the critical sections in lock order; spec/CatThreadsTrace.tla validates it.
 *
 * usage: catmt <out.ndjson> <producers> <ops-per-producer> <seed>
 */
#define _GNU_SOURCE
#include "cat.h"

#include <pthread.h>
#include <sched.h>
#include <stdio.h>
#include <stdlib.h>
#include <string.h>
#include <stdatomic.h>
#include <unistd.h>

#ifndef NO_HOOK
extern void (*cat_verif_touch)(const struct cat_object *self, int what);
#endif

#define MAXP 8
#define MAXSEC 400000
#define MAXTOUCH 6

struct section {
        int thr, api, c, ntouch, ret, ndeliv;
        signed char touch[MAXTOUCH];
        signed char deliv[8];
};

enum { API_NONE, API_SVC, API_TRIGGER, API_FULL, API_BUSY, API_HOLD, API_HEXIT };
static const char *api_name[] = { "none", "svc", "trigger", "is_full", "is_busy", "is_hold", "hold_exit" };

static struct section *sec;
static long nsec;                         /* written under the lock */
static pthread_mutex_t mtx = PTHREAD_MUTEX_INITIALIZER;
static int owner = -1;                    /* thread that holds mtx, written under the lock */
static atomic_long unowned_touches;       /* touches made by a thread that does not hold the lock */
static atomic_int unowned_what, unowned_api, unowned_thr;
static atomic_int producers_left;

static __thread int my_id = -1;
static __thread int my_api = API_NONE;
static __thread int my_c = -1;
static __thread long my_sec = -1;

static struct cat_object at;
static int nprod;
static atomic_long accepted[MAXP], refused[MAXP];
static long delivered[MAXP];              /* service thread only */

static int m_lock(void)
{
        pthread_mutex_lock(&mtx);
        owner = my_id;
        if (nsec < MAXSEC) {
                my_sec = nsec++;
                sec[my_sec].thr = my_id; sec[my_sec].api = my_api; sec[my_sec].c = my_c; sec[my_sec].ntouch = 0; sec[my_sec].ret = 99; sec[my_sec].ndeliv = 0;
        } else my_sec = -1;
        return 0;
}

static int m_unlock(void)
{
        /* idle service calls (nothing popped, nothing delivered) are not worth a record */
        if (my_sec >= 0 && my_sec == nsec - 1 && sec[my_sec].api == API_SVC && sec[my_sec].ndeliv == 0) {
                int pop = 0;
                for (int k = 0; k < sec[my_sec].ntouch; k++) if (sec[my_sec].touch[k] != 8) pop = 1;
                if (!pop) { nsec--; my_sec = -1; }
        }
        owner = -1;
        pthread_mutex_unlock(&mtx);
        return 0;
}

static struct cat_mutex_interface mutex_if = { m_lock, m_unlock };

#ifndef NO_HOOK
static void touch(const struct cat_object *self, int what)
{
        (void)self;
        if (owner != my_id || my_id < 0) {
                atomic_fetch_add(&unowned_touches, 1);
                atomic_store(&unowned_what, what); atomic_store(&unowned_api, my_api); atomic_store(&unowned_thr, my_id);
                return;
        }
        if (my_sec >= 0 && sec[my_sec].ntouch < MAXTOUCH) sec[my_sec].touch[sec[my_sec].ntouch++] = (signed char)what;
}
#endif

/* ---- io */
static char inbuf[1 << 16]; static size_t in_head, in_tail;   /* service thread only */
static unsigned io_seed;
static int refuse_pct;

static int io_read(char *ch)
{
        if (in_head == in_tail || (rand_r(&io_seed) % 100) < refuse_pct) return 0;
        *ch = inbuf[in_head++];
        return 1;
}
static long out_bytes;
static int io_write(char ch)
{
        (void)ch;
        if ((rand_r(&io_seed) % 100) < refuse_pct) return 0;
        out_bytes++;
        return 1;
}
static struct cat_io_interface io_if = { io_write, io_read };

/* ---- commands */
static struct cat_command cmds[MAXP + 2];
static char names[MAXP + 2][8];
static uint8_t var_store[MAXP + 2];
static struct cat_variable vars[MAXP + 2];

static cat_return_state ev_read(const struct cat_command *cmd, uint8_t *data, size_t *data_size, const size_t max)
{
        int c = (int)(cmd - cmds);
        (void)data; (void)data_size; (void)max;
        if (c >= 0 && c < nprod) {
                delivered[c]++;
                if (my_sec >= 0 && sec[my_sec].ndeliv < 8) sec[my_sec].deliv[sec[my_sec].ndeliv++] = (signed char)c;
        }
        return CAT_RETURN_STATE_DATA_OK;
}
static unsigned svc_seed;
static cat_return_state run_h(const struct cat_command *cmd)
{
        (void)cmd;
        return (rand_r(&svc_seed) % 3 == 0) ? CAT_RETURN_STATE_HOLD : CAT_RETURN_STATE_OK;
}
static cat_return_state read_c(const struct cat_command *cmd, uint8_t *data, size_t *data_size, const size_t max)
{
        (void)cmd; (void)data; (void)data_size; (void)max;
        return CAT_RETURN_STATE_DATA_OK;
}

static struct cat_command_group group, *groups[1];
static struct cat_descriptor desc;
static uint8_t wbuf[128];

static void set_ret(int r) { if (my_sec >= 0) sec[my_sec].ret = r; my_sec = -1; }

static long ops_per_producer;

static void *producer_main(void *arg)
{
        int id = (int)(long)arg;
        my_id = id;
        unsigned seed = 7919u * (unsigned)(id + 1) + io_seed * 31u;
        for (long i = 0; i < ops_per_producer; i++) {
                int r = (int)(rand_r(&seed) % 100);
                my_c = id;
                if (r < 55) {
                        my_api = API_TRIGGER;
                        cat_status s = (r & 1) ? cat_trigger_unsolicited_read(&at, &cmds[id]) : cat_trigger_unsolicited_event(&at, &cmds[id], CAT_CMD_TYPE_READ);
                        set_ret((int)s);
                        if (s == CAT_STATUS_OK) atomic_fetch_add(&accepted[id], 1); else atomic_fetch_add(&refused[id], 1);
                } else if (r < 70) { my_api = API_FULL; set_ret((int)cat_is_unsolicited_buffer_full(&at)); }
                else if (r < 80) { my_api = API_BUSY; set_ret((int)cat_is_busy(&at)); }
                else if (r < 90) { my_api = API_HOLD; set_ret((int)cat_is_hold(&at)); }
                else { my_api = API_HEXIT; set_ret((int)cat_hold_exit(&at, (r & 1) ? CAT_STATUS_OK : CAT_STATUS_ERROR)); }
                my_api = API_NONE;
                int y = (int)(rand_r(&seed) % 8);
                if (y == 0) usleep(rand_r(&seed) % 50); else if (y < 4) sched_yield();
        }
        atomic_fetch_sub(&producers_left, 1);
        return NULL;
}

static void *service_main(void *arg)
{
        (void)arg;
        my_id = MAXP;                      /* id of the service thread */
        my_c = -1;
        long idle = 0, calls = 0;
        while (1) {
                if (in_head == in_tail && (rand_r(&svc_seed) % 64) == 0 && atomic_load(&producers_left) > 0) {
                        const char *l = (rand_r(&svc_seed) % 2) ? "AT+C?\n" : "AT+H\n";
                        in_head = in_tail = 0;
                        memcpy(inbuf, l, strlen(l)); in_tail = strlen(l);
                }
                my_api = API_SVC;
                cat_status s = cat_service(&at);
                set_ret((int)s);
                my_api = API_NONE;
                calls++;
                if (atomic_load(&producers_left) == 0) {
                        if (s == CAT_STATUS_OK && in_head == in_tail) { if (++idle > 3) break; } else idle = 0;
                        if (cat_is_hold(&at) == CAT_STATUS_HOLD) { my_api = API_HEXIT; set_ret((int)cat_hold_exit(&at, CAT_STATUS_OK)); my_api = API_NONE; }
                        refuse_pct = 0;
                }
                if (calls > 50000000) break;
                if ((rand_r(&svc_seed) % 16) == 0) sched_yield();
        }
        return NULL;
}

int main(int argc, char **argv)
{
        if (argc < 5) { fprintf(stderr, "usage: catmt <out> <producers> <ops> <seed>\n"); return 2; }
        nprod = atoi(argv[2]); if (nprod < 1) nprod = 1; if (nprod > MAXP) nprod = MAXP;
        ops_per_producer = atol(argv[3]);
        unsigned seed = (unsigned)atoi(argv[4]);
        io_seed = seed * 2654435761u + 1; svc_seed = seed * 40503u + 7; refuse_pct = (int)(seed % 4) * 20;
        sec = calloc(MAXSEC, sizeof *sec);
        for (int i = 0; i < nprod + 2; i++) {
                if (i < nprod) snprintf(names[i], sizeof names[i], "+P%d", i);
                else snprintf(names[i], sizeof names[i], i == nprod ? "+C" : "+H");
                cmds[i].name = names[i];
                vars[i].type = CAT_VAR_UINT_DEC; vars[i].data = &var_store[i]; vars[i].data_size = 1; vars[i].access = CAT_VAR_ACCESS_READ_WRITE;
                cmds[i].var = &vars[i]; cmds[i].var_num = 1;
                if (i < nprod) cmds[i].read = ev_read;
                else if (i == nprod) cmds[i].read = read_c;
                else cmds[i].run = run_h;
        }
        group.cmd = cmds; group.cmd_num = (size_t)nprod + 2; groups[0] = &group;
        desc.cmd_group = groups; desc.cmd_group_num = 1; desc.buf = wbuf; desc.buf_size = sizeof wbuf;
#ifndef NO_HOOK
        cat_verif_touch = touch;
#endif
        my_id = MAXP + 1;
        cat_init(&at, &desc, &io_if, &mutex_if);
        atomic_store(&producers_left, nprod);
        pthread_t st, pt[MAXP];
        pthread_create(&st, NULL, service_main, NULL);
        for (int i = 0; i < nprod; i++) pthread_create(&pt[i], NULL, producer_main, (void *)(long)i);
        for (int i = 0; i < nprod; i++) pthread_join(pt[i], NULL);
        pthread_join(st, NULL);

        FILE *out = fopen(argv[1], "w");
        if (!out) return 2;
        fprintf(out, "{\"e\":\"mtcfg\",\"qcap\":%d,\"producers\":%d,\"ops\":%ld,\"seed\":%u,\"hook\":%s}\n", (int)CAT_UNSOLICITED_CMD_BUFFER_SIZE, nprod, ops_per_producer, seed,
#ifndef NO_HOOK
                "true"
#else
                "false"
#endif
        );
        for (long i = 0; i < nsec; i++) {
                struct section *s = &sec[i];
                fprintf(out, "{\"e\":\"sec\",\"seq\":%ld,\"thr\":%d,\"api\":\"%s\",\"c\":%d,\"ret\":%d,\"touch\":[", i, s->thr, api_name[s->api], s->c, s->ret);
                for (int k = 0; k < s->ntouch; k++) fprintf(out, "%s%d", k ? "," : "", s->touch[k]);
                fprintf(out, "],\"deliv\":[");
                for (int k = 0; k < s->ndeliv; k++) fprintf(out, "%s%d", k ? "," : "", s->deliv[k]);
                fprintf(out, "]}\n");
        }
        fprintf(out, "{\"e\":\"mtend\",\"unowned\":%ld,\"unowned_what\":%d,\"unowned_api\":\"%s\",\"accepted\":[", atomic_load(&unowned_touches), atomic_load(&unowned_what),
                api_name[atomic_load(&unowned_api)]);
        for (int i = 0; i < nprod; i++) fprintf(out, "%s%ld", i ? "," : "", atomic_load(&accepted[i]));
        fprintf(out, "],\"refused\":[");
        for (int i = 0; i < nprod; i++) fprintf(out, "%s%ld", i ? "," : "", atomic_load(&refused[i]));
        fprintf(out, "],\"delivered\":[");
        for (int i = 0; i < nprod; i++) fprintf(out, "%s%ld", i ? "," : "", delivered[i]);
        fprintf(out, "],\"truncated\":%s}\n", nsec >= MAXSEC ? "true" : "false");
        fclose(out);
        return 0;
}
