/*
 * catdrv - scenario interpreter and event recorder for cAT (see /verif/DESIGN.md section 4.1)
 *
 * Reads scenario files (line based text, format documented in /verif/harness/FORMAT.md), executes them
 * against the real library ($REPO/src/cat.c, compiled into this binary) and writes one ndjson trace.
 * Every callback the library can reach is a function of this file; each appends one observable event.
 *
 * usage: catdrv <out.ndjson> <scenario-file>...      (stdin when no scenario file is given)
 */
#define _GNU_SOURCE
#include "cat.h"

#include <stdio.h>
#include <stdlib.h>
#include <string.h>
#include <stdarg.h>
#include <signal.h>
#include <unistd.h>
#include <inttypes.h>

#define MAXG 16
#define MAXC 300
#define MAXV 12
#define CANARY 16
#define CANARY_BYTE 0xC7
#define MAXQ 4096

/* ------------------------------------------------------------------ output */

static FILE *out;
static char *evbuf;           /* events of the API call being recorded */
static size_t evlen, evcap;
static int ev_count;
static int in_call;           /* nesting depth of API calls being recorded */

static void die(const char *fmt, ...)
{
        va_list ap;
        va_start(ap, fmt);
        fprintf(stderr, "catdrv: ");
        vfprintf(stderr, fmt, ap);
        fprintf(stderr, "\n");
        va_end(ap);
        if (out) fflush(out);
        _exit(3);
}

static void ev_printf(const char *fmt, ...)
{
        va_list ap;
        for (;;) {
                va_start(ap, fmt);
                int n = vsnprintf(evbuf + evlen, evcap - evlen, fmt, ap);
                va_end(ap);
                if (n < 0) die("vsnprintf");
                if ((size_t)n < evcap - evlen) { evlen += (size_t)n; return; }
                evcap = evcap * 2 + (size_t)n + 64;
                evbuf = realloc(evbuf, evcap);
                if (!evbuf) die("oom");
        }
}

static void ev_bytes(const uint8_t *p, size_t n)
{
        ev_printf("[");
        for (size_t i = 0; i < n; i++) ev_printf(i ? ",%u" : "%u", p[i]);
        ev_printf("]");
}

static int open_ev;            /* events whose JSON object is still being written */
static size_t ev_safe_len;     /* length of evbuf up to the last complete top-level event */
static int ev_count_stack[16]; static int ev_sp;

static void ev_begin(void)
{
        if (open_ev == 0) ev_safe_len = evlen;
        if (ev_count++) ev_printf(",");
}
static void ev_nest_push(void) { if (ev_sp < 16) ev_count_stack[ev_sp++] = ev_count; ev_count = 0; }
static void ev_nest_pop(void) { if (ev_sp > 0) ev_count = ev_count_stack[--ev_sp]; }

/* ------------------------------------------------------------------ scenario state */

struct script_entry {
        int ret;
        int has_data; uint8_t *data; size_t data_len;
        long size;             /* -1: handler leaves *data_size alone; data given: strlen of data */
        char *acts;            /* ';' separated actions executed inside the handler */
};
struct script { struct script_entry *e; int n, cap, next; };

struct hvar {
        struct cat_variable *v;
        uint8_t *alloc;        /* CANARY + size + CANARY */
        uint8_t *shadow;
        size_t size;
        int type, acc;
        struct script sr, sw;
};
struct hcmd {
        struct cat_command *c;
        int group, nvars;
        char *name, *desc;
        struct hvar vars[MAXV];
        int has[4];            /* w r x t */
        struct script hs[4][2];/* kind x fsm(0 cmd,1 ev) */
        /* configuration as parsed */
        int need_all, only_test, disable, implicit;
};

static struct cat_object *at;
static struct cat_descriptor desc;
static struct cat_io_interface io_if;
static struct cat_mutex_interface mtx_if;
static struct cat_command_group *groups[MAXG];
static struct cat_command_group **group_ptrs;
static int ngroups, ncmds, ntab;    /* cmds[ntab..] are unregistered command descriptors */
static int group_disable[MAXG], group_first[MAXG], group_n[MAXG];
static char *group_name[MAXG];
static struct hcmd cmds[MAXC];
static size_t bufsize; static long usize; /* usize < 0: shared */
static uint8_t *buf_alloc, *ubuf_alloc, *buf, *ubuf;
static size_t acap, ucap;
static int use_mutex, fill_byte, grain_step = 1, compact;
static char autoq[16];
static int hdef[4] = { 3, 0, 3, 0 };
static long sid;
static int scenario_open;

static uint8_t inq[1 << 20]; static size_t in_head, in_tail;
static char rdq[MAXQ * 16]; static size_t rd_head, rd_tail;
static char wrq[MAXQ * 16]; static size_t wr_head, wr_tail;
static long lock_n, unlock_n;
static struct { long k; int ret; } lock_s[256], unlock_s[256]; static int nlock_s, nunlock_s;
static long total_calls;
static uint8_t outcap[1 << 16]; static size_t outcap_len;
static int delivered_in_call;

/* snapshots for C16 */
static uint8_t *snap_entry, *snap_unlock; static size_t snap_size;
static int call_lock_seen, call_lock_failed, call_clean, call_unlock_seen;

static void script_push(struct script *s, struct script_entry e)
{
        if (s->n == s->cap) { s->cap = s->cap * 2 + 4; s->e = realloc(s->e, sizeof(*s->e) * (size_t)s->cap); }
        s->e[s->n++] = e;
}

static uint8_t *unhex(const char *h, size_t *n)
{
        if (strcmp(h, "-") == 0) { *n = 0; return calloc(1, 1); }
        size_t l = strlen(h);
        if (l % 2) die("odd hex '%s'", h);
        uint8_t *r = calloc(l / 2 + 1, 1);
        for (size_t i = 0; i < l / 2; i++) {
                unsigned v;
                if (sscanf(h + 2 * i, "%2x", &v) != 1) die("bad hex '%s'", h);
                r[i] = (uint8_t)v;
        }
        *n = l / 2;
        return r;
}

/* ------------------------------------------------------------------ canonical values */

static void ev_canon(int type, size_t size, const uint8_t *p)
{
        char tmp[32];
        if (type <= CAT_VAR_NUM_HEX && (size == 1 || size == 2 || size == 4)) {
                uint32_t u = 0; int32_t s = 0;
                if (size == 1) { u = *(const uint8_t *)p; s = *(const int8_t *)p; }
                if (size == 2) { uint16_t x; memcpy(&x, p, 2); u = x; s = (int16_t)x; }
                if (size == 4) { memcpy(&u, p, 4); s = (int32_t)u; }
                if (type == CAT_VAR_INT_DEC) snprintf(tmp, sizeof tmp, "%" PRId32, s);
                else if (type == CAT_VAR_UINT_DEC) snprintf(tmp, sizeof tmp, "%" PRIu32, u);
                else snprintf(tmp, sizeof tmp, "%0*" PRIX32, (int)(2 * size), u);
                ev_bytes((const uint8_t *)tmp, strlen(tmp));
                return;
        }
        ev_bytes(p, size);
}

/* ------------------------------------------------------------------ lookup */

static int cmd_index(const struct cat_command *c)
{
        for (int i = 0; i < ncmds; i++)
                if (cmds[i].c == c) return i;
        return -1;
}

static int var_flat(const struct cat_variable *v, int *ci, int *vi)
{
        int flat = 0;
        for (int i = 0; i < ncmds; i++)
                for (int j = 0; j < cmds[i].nvars; j++, flat++)
                        if (cmds[i].vars[j].v == v) { if (ci) *ci = i; if (vi) *vi = j; return flat; }
        return -1;
}

/* ------------------------------------------------------------------ snapshots (C16) */

static size_t snap_total(void)
{
        size_t n = sizeof(struct cat_object) + bufsize + (usize >= 0 ? (size_t)usize : 0);
        for (int i = 0; i < ncmds; i++)
                for (int j = 0; j < cmds[i].nvars; j++) n += cmds[i].vars[j].size;
        return n;
}

static void snap_take(uint8_t *dst)
{
        size_t o = 0;
        memcpy(dst + o, at, sizeof(struct cat_object)); o += sizeof(struct cat_object);
        memcpy(dst + o, buf, bufsize); o += bufsize;
        if (usize >= 0) { memcpy(dst + o, ubuf, (size_t)usize); o += (size_t)usize; }
        for (int i = 0; i < ncmds; i++)
                for (int j = 0; j < cmds[i].nvars; j++) {
                        memcpy(dst + o, cmds[i].vars[j].v->data, cmds[i].vars[j].size);
                        o += cmds[i].vars[j].size;
                }
}

static int snap_same(const uint8_t *ref)
{
        uint8_t *cur = malloc(snap_size ? snap_size : 1);
        snap_take(cur);
        int same = memcmp(cur, ref, snap_size) == 0;
        free(cur);
        return same;
}

/* ------------------------------------------------------------------ actions usable from handlers and as ops */

static void do_api(const char *op, char **tok, int ntok);

static void run_actions(const char *acts)
{
        if (!acts) return;
        char *copy = strdup(acts), *save = NULL;
        for (char *a = strtok_r(copy, ";", &save); a; a = strtok_r(NULL, ";", &save)) {
                char *tok[8]; int n = 0; char *s2 = NULL;
                for (char *t = strtok_r(a, ":", &s2); t && n < 8; t = strtok_r(NULL, ":", &s2)) tok[n++] = t;
                if (n) do_api(tok[0], tok + 1, n - 1);
        }
        free(copy);
}

/* ------------------------------------------------------------------ library callbacks */

static int cb_read(char *ch)
{
        int ready = 1;
        if (rd_head < rd_tail) ready = rdq[rd_head++] != '0';
        ev_begin();
        if (!ready || in_head == in_tail) {
                ev_printf("{\"k\":\"rd\",\"b\":-1,\"off\":%zu}", in_head);
                return 0;
        }
        *ch = (char)inq[in_head];
        ev_printf("{\"k\":\"rd\",\"b\":%u,\"off\":%zu}", inq[in_head], in_head);
        in_head++;
        delivered_in_call++;
        return 1;
}

static int cb_write(char ch)
{
        int r = 1;
        if (wr_head < wr_tail) {
                char c = wrq[wr_head++];
                r = (c == '1') ? 1 : (c == '0') ? 0 : (c == 'n') ? -1 : (c - '0');
        }
        ev_begin();
        ev_printf("{\"k\":\"wr\",\"b\":%u,\"ok\":%s,\"r\":%d}", (uint8_t)ch, r == 1 ? "true" : "false", r);
        if (r == 1 && outcap_len < sizeof outcap) outcap[outcap_len++] = (uint8_t)ch;
        return r;
}

static int cb_lock(void)
{
        int r = 0;
        lock_n++;
        for (int i = 0; i < nlock_s; i++) if (lock_s[i].k == lock_n) r = lock_s[i].ret;
        int clean = snap_same(snap_entry);
        if (!call_lock_seen) { call_lock_seen = 1; call_clean = clean; call_lock_failed = (r != 0); }
        ev_begin();
        ev_printf("{\"k\":\"lock\",\"r\":%d,\"n\":%ld,\"clean\":%s}", r, lock_n, clean ? "true" : "false");
        return r;
}

static int cb_unlock(void)
{
        int r = 0;
        unlock_n++;
        for (int i = 0; i < nunlock_s; i++) if (unlock_s[i].k == unlock_n) r = unlock_s[i].ret;
        snap_take(snap_unlock);
        call_unlock_seen = 1;
        ev_begin();
        ev_printf("{\"k\":\"unlock\",\"r\":%d,\"n\":%ld}", r, unlock_n);
        return r;
}

static struct script_entry *next_entry(struct script *s)
{
        if (s->next < s->n) return &s->e[s->next++];
        return NULL;
}

static const char *kind_name[4] = { "write", "read", "run", "test" };

static int fsm_of(const uint8_t *data)
{
        return (data == ubuf && data != buf) ? 1 : 0;
}

static cat_return_state handler_rt(int kind, const struct cat_command *cmd, uint8_t *data, size_t *data_size, size_t max)
{
        int ci = cmd_index(cmd);
        int fsm = fsm_of(data);
        size_t truecap = fsm ? ucap : acap;
        size_t lim = max < truecap ? max : truecap;
        ev_begin();
        ev_printf("{\"k\":\"cmd\",\"kind\":\"%s\",\"c\":%d,\"fsm\":\"%s\",\"data\":", kind_name[kind], ci, fsm ? "ev" : "cmd");
        ev_bytes(data, strnlen((char *)data, lim));
        ev_printf(",\"size\":%zu,\"aux\":%zu", *data_size, max);
        struct script_entry *e = ci >= 0 ? next_entry(&cmds[ci].hs[kind][fsm]) : NULL;
        int ret = e ? e->ret : hdef[kind];
        if (e && e->has_data && e->data_len < lim) {
                memcpy(data, e->data, e->data_len);
                data[e->data_len] = 0;
                *data_size = e->data_len;
        }
        if (e && e->size >= 0) *data_size = (size_t)e->size;
        ev_printf(",\"ret\":%d,\"data2\":", ret);
        ev_bytes(data, strnlen((char *)data, lim));
        ev_printf(",\"size2\":%zu,\"in\":[", *data_size);
        open_ev++; ev_nest_push();
        if (e) run_actions(e->acts);
        ev_nest_pop(); open_ev--;
        ev_printf("]}");
        return (cat_return_state)ret;
}

static cat_return_state h_read(const struct cat_command *cmd, uint8_t *data, size_t *data_size, const size_t max)
{
        return handler_rt(1, cmd, data, data_size, max);
}

static cat_return_state h_test(const struct cat_command *cmd, uint8_t *data, size_t *data_size, const size_t max)
{
        return handler_rt(3, cmd, data, data_size, max);
}

static cat_return_state h_write(const struct cat_command *cmd, const uint8_t *data, const size_t data_size, const size_t args_num)
{
        int ci = cmd_index(cmd);
        size_t n = data_size < acap ? data_size : acap;
        ev_begin();
        ev_printf("{\"k\":\"cmd\",\"kind\":\"write\",\"c\":%d,\"fsm\":\"cmd\",\"data\":", ci);
        ev_bytes(data, n);
        ev_printf(",\"size\":%zu,\"aux\":%zu,\"nul\":%s", data_size, args_num,
                  (data_size < acap && data[data_size] == 0) ? "true" : "false");
        struct script_entry *e = ci >= 0 ? next_entry(&cmds[ci].hs[0][0]) : NULL;
        int ret = e ? e->ret : hdef[0];
        ev_printf(",\"ret\":%d,\"data2\":[],\"size2\":0,\"in\":[", ret);
        open_ev++; ev_nest_push();
        if (e) run_actions(e->acts);
        ev_nest_pop(); open_ev--;
        ev_printf("]}");
        return (cat_return_state)ret;
}

static cat_return_state h_run(const struct cat_command *cmd)
{
        int ci = cmd_index(cmd);
        ev_begin();
        ev_printf("{\"k\":\"cmd\",\"kind\":\"run\",\"c\":%d,\"fsm\":\"cmd\",\"data\":[],\"size\":0,\"aux\":0", ci);
        struct script_entry *e = ci >= 0 ? next_entry(&cmds[ci].hs[2][0]) : NULL;
        int ret = e ? e->ret : hdef[2];
        ev_printf(",\"ret\":%d,\"data2\":[],\"size2\":0,\"in\":[", ret);
        open_ev++; ev_nest_push();
        if (e) run_actions(e->acts);
        ev_nest_pop(); open_ev--;
        ev_printf("]}");
        return (cat_return_state)ret;
}

static int v_read(const struct cat_variable *var)
{
        int ci = -1, vi = -1;
        var_flat(var, &ci, &vi);
        struct script_entry *e = ci >= 0 ? next_entry(&cmds[ci].vars[vi].sr) : NULL;
        int ret = e ? e->ret : 0;
        ev_begin();
        ev_printf("{\"k\":\"vr\",\"c\":%d,\"v\":%d,\"r\":%d,\"in\":[", ci, vi, ret);
        open_ev++; ev_nest_push();
        if (e) run_actions(e->acts);
        ev_nest_pop(); open_ev--;
        ev_printf("]}");
        return ret;
}

static int v_write(const struct cat_variable *var, const size_t write_size)
{
        int ci = -1, vi = -1;
        var_flat(var, &ci, &vi);
        struct script_entry *e = ci >= 0 ? next_entry(&cmds[ci].vars[vi].sw) : NULL;
        int ret = e ? e->ret : 0;
        ev_begin();
        ev_printf("{\"k\":\"vw\",\"c\":%d,\"v\":%d,\"ws\":%zu,\"r\":%d,\"in\":[", ci, vi, write_size, ret);
        open_ev++; ev_nest_push();
        if (e) run_actions(e->acts);
        ev_nest_pop(); open_ev--;
        ev_printf("]}");
        return ret;
}

/* ------------------------------------------------------------------ projection of the public struct */

#ifndef NO_PROJ
static int wbuf_code(const char *p)
{
        if (p == NULL) return -1;
        if ((const uint8_t *)p >= buf && (const uint8_t *)p < buf + bufsize) return ((const uint8_t *)p >= ubuf && usize < 0) ? 3 : 2;
        if (usize >= 0 && (const uint8_t *)p >= ubuf && (const uint8_t *)p <= ubuf + usize) return 3;
        if (p[0] == '\r') return 0;
        if (p[0] == '\n') return 1;
        return -2;
}

static void print_state(FILE *f)
{
        struct cat_unsolicited_fsm *u = &at->unsolicited_fsm;
        fprintf(f, ",\"st\":{\"s\":%d,\"us\":%d,\"ch\":%u,\"cr\":%d,\"ct\":%d,\"cmd\":%d,\"var\":%d,\"idx\":%zu,\"par\":%zu,"
                "\"len\":%zu,\"pos\":%zu,\"ws\":%zu,\"imp\":%d,\"hold\":%d,\"hx\":%d,\"wb\":%d,\"wph\":%d,\"waf\":%d,"
                "\"upos\":%zu,\"uidx\":%zu,\"ucmd\":%d,\"uvar\":%d,\"uct\":%d,\"uwb\":%d,\"uwph\":%d,\"uwaf\":%d,"
                "\"head\":%zu,\"tail\":%zu,\"cnt\":%zu,\"ring\":[",
                (int)at->state, (int)u->state, (uint8_t)at->current_char, at->cr_flag ? 1 : 0, (int)at->cmd_type,
                cmd_index(at->cmd), var_flat(at->var, NULL, NULL), at->index, at->partial_cntr,
                at->length, at->position, at->write_size, at->implicit_write_flag ? 1 : 0, at->hold_state_flag ? 1 : 0,
                at->hold_exit_status, wbuf_code(at->write_buf), at->write_state, (int)at->write_state_after,
                u->position, u->index, cmd_index(u->cmd), var_flat(u->var, NULL, NULL), (int)u->cmd_type,
                wbuf_code(u->write_buf), u->write_state, (int)u->write_state_after,
                u->unsolicited_cmd_buffer_head, u->unsolicited_cmd_buffer_tail, u->unsolicited_cmd_buffer_items_count);
        for (size_t i = 0; i < CAT_UNSOLICITED_CMD_BUFFER_SIZE; i++)
                fprintf(f, "%s[%d,%d]", i ? "," : "", cmd_index(u->unsolicited_cmd_buffer[i].cmd), (int)u->unsolicited_cmd_buffer[i].type);
        fprintf(f, "]}");
}
static int cmd_idle(void) { return at->state == CAT_STATE_IDLE; }
static int ev_idle(void) { return at->unsolicited_fsm.state == CAT_UNSOLICITED_STATE_IDLE && at->unsolicited_fsm.unsolicited_cmd_buffer_items_count == 0; }
#else
static void print_state(FILE *f) { (void)f; }
static int cmd_idle(void) { return 0; }
static int ev_idle(void) { return 0; }
#endif

/* ------------------------------------------------------------------ API call recording */

static uint8_t *half_copy; static int half_cmd_idle, half_ev_idle;
static char call_name[32]; static char call_args[128];
static int merged_n;

static void begin_call(const char *name, const char *args)
{
        if (in_call++ > 0) {
                ev_begin();
                ev_printf("{\"k\":\"api\",\"f\":\"%s\",\"a\":[%s],\"ev\":[", name, args);
                ev_nest_push();
                return;
        }
        snprintf(call_name, sizeof call_name, "%s", name);
        snprintf(call_args, sizeof call_args, "%s", args);
        if (!(compact && merged_n > 0)) { evlen = 0; ev_count = 0; if (evbuf) evbuf[0] = 0; }
        delivered_in_call = 0;
        call_lock_seen = call_lock_failed = call_unlock_seen = 0; call_clean = 1;
        if (use_mutex) snap_take(snap_entry);
        half_cmd_idle = cmd_idle(); half_ev_idle = ev_idle();
        memcpy(half_copy, buf, bufsize);
        if (usize >= 0) memcpy(half_copy + bufsize, ubuf, (size_t)usize);
}

static void check_canaries(void)
{
        for (int i = 0; i < ncmds; i++)
                for (int j = 0; j < cmds[i].nvars; j++) {
                        struct hvar *hv = &cmds[i].vars[j];
                        int bad = 0;
                        for (int k = 0; k < CANARY; k++)
                                if (hv->alloc[k] != CANARY_BYTE || hv->alloc[CANARY + hv->size + (size_t)k] != CANARY_BYTE) bad = 1;
                        if (bad) {
                                ev_begin(); ev_printf("{\"k\":\"canary\",\"what\":\"var\",\"c\":%d,\"v\":%d}", i, j);
                                memset(hv->alloc, CANARY_BYTE, CANARY); memset(hv->alloc + CANARY + hv->size, CANARY_BYTE, CANARY);
                        }
                }
        int bad = 0;
        for (int k = 0; k < CANARY; k++) if (buf_alloc[k] != CANARY_BYTE || buf_alloc[CANARY + bufsize + (size_t)k] != CANARY_BYTE) bad = 1;
        if (bad) { ev_begin(); ev_printf("{\"k\":\"canary\",\"what\":\"buf\",\"c\":-1,\"v\":-1}"); memset(buf_alloc, CANARY_BYTE, CANARY); memset(buf_alloc + CANARY + bufsize, CANARY_BYTE, CANARY); }
        if (usize >= 0) {
                bad = 0;
                for (int k = 0; k < CANARY; k++) if (ubuf_alloc[k] != CANARY_BYTE || ubuf_alloc[CANARY + (size_t)usize + (size_t)k] != CANARY_BYTE) bad = 1;
                if (bad) { ev_begin(); ev_printf("{\"k\":\"canary\",\"what\":\"ubuf\",\"c\":-1,\"v\":-1}"); memset(ubuf_alloc, CANARY_BYTE, CANARY); memset(ubuf_alloc + CANARY + (size_t)usize, CANARY_BYTE, CANARY); }
        }
}

static void diff_mem(void)
{
        for (int i = 0; i < ncmds; i++)
                for (int j = 0; j < cmds[i].nvars; j++) {
                        struct hvar *hv = &cmds[i].vars[j];
                        if (memcmp(hv->shadow, hv->v->data, hv->size) != 0) {
                                ev_begin();
                                ev_printf("{\"k\":\"mem\",\"c\":%d,\"v\":%d,\"before\":", i, j);
                                ev_canon(hv->type, hv->size, hv->shadow);
                                ev_printf(",\"after\":");
                                ev_canon(hv->type, hv->size, hv->v->data);
                                ev_printf("}");
                                memcpy(hv->shadow, hv->v->data, hv->size);
                        }
                }
}

static void flush_merged(long ret);
static long last_svc_ret;

static void end_call(long ret, int is_svc)
{
        if (--in_call > 0) {
                ev_nest_pop();
                ev_printf("],\"ret\":%ld}", ret);
                return;
        }
        total_calls++;
        diff_mem();
        check_canaries();
        if (is_svc) {
                size_t cmd_half = (usize >= 0) ? bufsize : (bufsize >> 1);
                if (half_cmd_idle && memcmp(half_copy, buf, cmd_half) != 0) { ev_begin(); ev_printf("{\"k\":\"half\",\"which\":\"cmd\"}"); }
                if (half_ev_idle) {
                        int ch = (usize >= 0) ? memcmp(half_copy + bufsize, ubuf, (size_t)usize) : memcmp(half_copy + cmd_half, buf + cmd_half, bufsize - cmd_half);
                        if (ch != 0) { ev_begin(); ev_printf("{\"k\":\"half\",\"which\":\"ev\"}"); }
                }
        }
        if (compact && is_svc) { merged_n++; last_svc_ret = ret; if (merged_n >= 48) flush_merged(ret); return; }   /* bounded: TLC's recursion depth per record */
        fprintf(out, "{\"e\":\"api\",\"f\":\"%s\",\"a\":[%s],\"ev\":[%s],\"ret\":%ld", call_name, call_args, evlen ? evbuf : "", ret);
        if (use_mutex) {
                int sau = call_unlock_seen ? snap_same(snap_unlock) : 1;
                int unch = snap_same(snap_entry);
                fprintf(out, ",\"mx\":{\"sau\":%s,\"unch\":%s}", sau ? "true" : "false", unch ? "true" : "false");
        }
        if (grain_step && (is_svc || call_name[0] == 't' || call_name[0] == 'h')) print_state(out);
        fprintf(out, "}\n");
}

static void flush_merged(long ret)
{
        if (!compact || merged_n == 0) return;
        fprintf(out, "{\"e\":\"api\",\"f\":\"svcs\",\"a\":[%d],\"ev\":[%s],\"ret\":%ld}\n", merged_n, evlen ? evbuf : "", ret);
        merged_n = 0; evlen = 0; ev_count = 0;
}

static long call_service(void)
{
        begin_call("svc", "");
        long r = (long)cat_service(at);
        end_call(r, 1);
        last_svc_ret = r;
        return r;
}

static void auto_queries(void);

/* ------------------------------------------------------------------ ops */

static int type_code(const char *t)
{
        if (!strcmp(t, "r")) return CAT_CMD_TYPE_READ;
        if (!strcmp(t, "t")) return CAT_CMD_TYPE_TEST;
        if (!strcmp(t, "n")) return CAT_CMD_TYPE_NONE;
        return atoi(t);
}

static void do_api(const char *op, char **tok, int ntok)
{
        char args[128];
        if (!strcmp(op, "trig") || !strcmp(op, "trigr") || !strcmp(op, "trigt")) {
                int c = atoi(tok[0]);
                if (c < 0 || c >= ncmds) die("trig: bad cmd");
                if (!strcmp(op, "trig")) {
                        int t = type_code(ntok > 1 ? tok[1] : "r");
                        snprintf(args, sizeof args, "%d,%d", c, t);
                        begin_call("trigger", args);
                        end_call((long)cat_trigger_unsolicited_event(at, cmds[c].c, (cat_cmd_type)t), 0);
                } else if (!strcmp(op, "trigr")) {
                        snprintf(args, sizeof args, "%d,%d", c, (int)CAT_CMD_TYPE_READ);
                        begin_call("trigger", args);
                        end_call((long)cat_trigger_unsolicited_read(at, cmds[c].c), 0);
                } else {
                        snprintf(args, sizeof args, "%d,%d", c, (int)CAT_CMD_TYPE_TEST);
                        begin_call("trigger", args);
                        end_call((long)cat_trigger_unsolicited_test(at, cmds[c].c), 0);
                }
        } else if (!strcmp(op, "hexit")) {
                int s = atoi(tok[0]);
                snprintf(args, sizeof args, "%d", s);
                begin_call("hold_exit", args);
                end_call((long)cat_hold_exit(at, (cat_status)s), 0);
        } else if (!strcmp(op, "q")) {
                if (!strcmp(tok[0], "busy")) { begin_call("is_busy", ""); end_call((long)cat_is_busy(at), 0); }
                else if (!strcmp(tok[0], "hold")) { begin_call("is_hold", ""); end_call((long)cat_is_hold(at), 0); }
                else if (!strcmp(tok[0], "full")) { begin_call("is_full", ""); end_call((long)cat_is_unsolicited_buffer_full(at), 0); }
                else die("q: what?");
        } else if (!strcmp(op, "qbuf")) {
                int c = atoi(tok[0]), t = type_code(tok[1]);
                snprintf(args, sizeof args, "%d,%d", c, t);
                begin_call("is_buffered", args);
                end_call((long)cat_is_unsolicited_event_buffered(at, cmds[c].c, (cat_cmd_type)t), 0);
        } else if (!strcmp(op, "qproc")) {
                int f = atoi(tok[0]);
                snprintf(args, sizeof args, "%d", f);
                begin_call("processed", args);
                end_call((long)cmd_index(cat_get_processed_command(at, (cat_fsm_type)f)), 0);
        } else if (!strcmp(op, "scmd") || !strcmp(op, "sgrp") || !strcmp(op, "svar")) {
                /* the three lookups by name: scmd <name> | sgrp <name> | svar <cmd> <name> */
                int isvar = !strcmp(op, "svar"); size_t l; int c = isvar ? atoi(tok[0]) : -1;
                uint8_t *nm = unhex(tok[isvar ? 1 : 0], &l);
                evlen = 0; ev_count = 0;
                if (isvar) ev_printf("%d%s", c, l ? "," : "");
                for (size_t i = 0; i < l; i++) ev_printf(i ? ",%u" : "%u", nm[i]);
                char *argcopy = strdup(evlen ? evbuf : "");
                long r = -1;
                if (!strcmp(op, "scmd")) { begin_call("search_cmd", argcopy); r = cmd_index(cat_search_command_by_name(at, (char *)nm)); }
                else if (!strcmp(op, "sgrp")) {
                        begin_call("search_grp", argcopy);
                        const struct cat_command_group *g = cat_search_command_group_by_name(at, (char *)nm);
                        for (int i = 0; i < ngroups; i++) if (groups[i] == g) r = i;
                } else {
                        if (c < 0 || c >= ncmds) die("svar: bad cmd");
                        begin_call("search_var", argcopy);
                        const struct cat_variable *v = cat_search_variable_by_name(at, cmds[c].c, (char *)nm);
                        int vi = -1; if (v) var_flat(v, NULL, &vi);
                        r = vi;
                }
                end_call(r, 0);
                free(argcopy); free(nm);
        } else if (!strcmp(op, "setmem")) {
                int c = atoi(tok[0]), v = atoi(tok[1]); size_t n;
                if (c < 0 || c >= ncmds || v < 0 || v >= cmds[c].nvars) die("setmem: bad var");
                uint8_t *b = unhex(tok[2], &n);
                struct hvar *hv = &cmds[c].vars[v];
                if (n != hv->size) die("setmem: size mismatch");
                memcpy(hv->v->data, b, n); memcpy(hv->shadow, b, n); free(b);
                if (in_call > 0) {
                        ev_begin(); ev_printf("{\"k\":\"setmem\",\"c\":%d,\"v\":%d,\"val\":", c, v); ev_canon(hv->type, hv->size, hv->shadow); ev_printf("}");
                } else {
                        flush_merged(last_svc_ret);
                        evlen = 0; ev_count = 0; ev_canon(hv->type, hv->size, hv->shadow);
                        fprintf(out, "{\"e\":\"env\",\"f\":\"setmem\",\"c\":%d,\"v\":%d,\"val\":%s}\n", c, v, evbuf);
                        evlen = 0;
                }
        } else if (!strcmp(op, "flag")) {
                /* flag cmd <ix> <disable|only_test> <0|1>   |  flag group <ix> <0|1> */
                if (!strcmp(tok[0], "group")) {
                        int g = atoi(tok[1]), v = atoi(tok[2]);
                        if (g < 0 || g >= ngroups) die("flag: bad group");
                        groups[g]->disable = v != 0; group_disable[g] = v != 0;
                        if (in_call > 0) { ev_begin(); ev_printf("{\"k\":\"flag\",\"t\":\"group\",\"i\":%d,\"fl\":\"disable\",\"val\":%s}", g, v ? "true" : "false"); }
                        else { flush_merged(last_svc_ret); fprintf(out, "{\"e\":\"env\",\"f\":\"flag\",\"t\":\"group\",\"i\":%d,\"fl\":\"disable\",\"val\":%s}\n", g, v ? "true" : "false"); }
                } else {
                        int c = atoi(tok[1]), v = atoi(tok[3]);
                        if (c < 0 || c >= ncmds) die("flag: bad cmd");
                        if (!strcmp(tok[2], "disable")) { cmds[c].c->disable = v != 0; cmds[c].disable = v != 0; }
                        else if (!strcmp(tok[2], "only_test")) { cmds[c].c->only_test = v != 0; cmds[c].only_test = v != 0; }
                        else die("flag: which?");
                        if (in_call > 0) { ev_begin(); ev_printf("{\"k\":\"flag\",\"t\":\"cmd\",\"i\":%d,\"fl\":\"%s\",\"val\":%s}", c, tok[2], v ? "true" : "false"); }
                        else { flush_merged(last_svc_ret); fprintf(out, "{\"e\":\"env\",\"f\":\"flag\",\"t\":\"cmd\",\"i\":%d,\"fl\":\"%s\",\"val\":%s}\n", c, tok[2], v ? "true" : "false"); }
                }
        } else {
                die("unknown action/op '%s'", op);
        }
}

static void auto_queries(void)
{
        for (const char *p = autoq; *p; p++) {
                char *t[2];
                switch (*p) {
                case 'b': t[0] = "busy"; do_api("q", t, 1); break;
                case 'h': t[0] = "hold"; do_api("q", t, 1); break;
                case 'f': t[0] = "full"; do_api("q", t, 1); break;
                case 'e': {
                        /* one record with the non-locking observers for every command (all library calls first: a sanitizer report
                           during them must not leave a half-written line behind) */
                        static int bf[MAXC][3];
                        snprintf(call_name, sizeof call_name, "qev"); call_args[0] = 0;
                        int pu = cmd_index(cat_get_processed_command(at, CAT_FSM_TYPE_UNSOLICITED));
                        int pc = cmd_index(cat_get_processed_command(at, CAT_FSM_TYPE_ATCMD));
                        for (int i = 0; i < ncmds; i++) {
                                bf[i][0] = (int)cat_is_unsolicited_event_buffered(at, cmds[i].c, CAT_CMD_TYPE_NONE);
                                bf[i][1] = (int)cat_is_unsolicited_event_buffered(at, cmds[i].c, CAT_CMD_TYPE_READ);
                                bf[i][2] = (int)cat_is_unsolicited_event_buffered(at, cmds[i].c, CAT_CMD_TYPE_TEST);
                        }
                        fprintf(out, "{\"e\":\"api\",\"f\":\"qev\",\"a\":[],\"ev\":[],\"ret\":0,\"pu\":%d,\"pc\":%d,\"bf\":[", pu, pc);
                        for (int i = 0; i < ncmds; i++) fprintf(out, "%s[%d,%d,%d]", i ? "," : "", bf[i][0], bf[i][1], bf[i][2]);
                        fprintf(out, "]}\n");
                        break;
                }
                default: break;
                }
        }
}

/* ------------------------------------------------------------------ scenario construction */

static void free_script(struct script *s)
{
        for (int i = 0; i < s->n; i++) { free(s->e[i].data); free(s->e[i].acts); }
        free(s->e);
        memset(s, 0, sizeof *s);
}

static void teardown(void)
{
        for (int i = 0; i < ncmds; i++) {
                for (int j = 0; j < cmds[i].nvars; j++) {
                        free(cmds[i].vars[j].alloc); free(cmds[i].vars[j].shadow);
                        free((void *)cmds[i].vars[j].v->name);
                        free_script(&cmds[i].vars[j].sr); free_script(&cmds[i].vars[j].sw);
                }
                for (int k = 0; k < 4; k++) for (int f = 0; f < 2; f++) free_script(&cmds[i].hs[k][f]);
                free(cmds[i].name); free(cmds[i].desc);
                free((void *)cmds[i].c->var);
        }
        for (int g = 0; g < ngroups; g++) { free((void *)groups[g]->cmd); free(groups[g]); groups[g] = NULL; free(group_name[g]); group_name[g] = NULL; }
        free(group_ptrs); group_ptrs = NULL;
        free(buf_alloc); buf_alloc = NULL; free(ubuf_alloc); ubuf_alloc = NULL;
        free(at); at = NULL;
        free(snap_entry); free(snap_unlock); snap_entry = snap_unlock = NULL;
        free(half_copy); half_copy = NULL;
        for (int i = ntab; i < ncmds; i++) free(cmds[i].c);
        memset(cmds, 0, sizeof cmds);
        ngroups = ncmds = ntab = 0;
        in_head = in_tail = rd_head = rd_tail = wr_head = wr_tail = 0; outcap_len = 0;
        lock_n = unlock_n = 0; nlock_s = nunlock_s = 0;
        use_mutex = 0; fill_byte = 0; grain_step = 1; compact = 0; autoq[0] = 0;
        hdef[0] = 3; hdef[1] = 0; hdef[2] = 3; hdef[3] = 0;
        usize = -1; bufsize = 0; merged_n = 0; in_call = 0;
}

static void emit_cfg(void)
{
        fprintf(out, "{\"e\":\"cfg\",\"sid\":%ld,\"qcap\":%d,\"acap\":%zu,\"ucap\":%zu,\"shared\":%s,\"mutex\":%s,\"step\":%s,\"fill\":%d,\"ntab\":%d,\"groups\":[",
                sid, (int)CAT_UNSOLICITED_CMD_BUFFER_SIZE, acap, ucap, usize < 0 ? "true" : "false", use_mutex ? "true" : "false",
                grain_step ? "true" : "false", fill_byte, ntab);
        for (int g = 0; g < ngroups; g++) {
                evlen = 0;
                if (group_name[g]) ev_bytes((uint8_t *)group_name[g], strlen(group_name[g])); else ev_printf("[]");
                fprintf(out, "%s{\"disable\":%s,\"hasname\":%s,\"name\":%s}", g ? "," : "", group_disable[g] ? "true" : "false", group_name[g] ? "true" : "false", evbuf);
        }
        evlen = 0;
        fprintf(out, "],\"cmds\":[");
        for (int i = 0; i < ncmds; i++) {
                struct hcmd *h = &cmds[i];
                evlen = 0; ev_bytes((uint8_t *)h->name, strlen(h->name));
                fprintf(out, "%s{\"name\":%s,\"group\":%d,\"hw\":%s,\"hr\":%s,\"hx\":%s,\"ht\":%s,\"need_all\":%s,\"only_test\":%s,\"disable\":%s,\"implicit\":%s,",
                        i ? "," : "", evbuf, h->group < 0 ? 0 : h->group, h->has[0] ? "true" : "false", h->has[1] ? "true" : "false", h->has[2] ? "true" : "false", h->has[3] ? "true" : "false",
                        h->need_all ? "true" : "false", h->only_test ? "true" : "false", h->disable ? "true" : "false", h->implicit ? "true" : "false");
                evlen = 0;
                if (h->desc) { ev_bytes((uint8_t *)h->desc, strlen(h->desc)); fprintf(out, "\"hasdesc\":true,\"desc\":%s,\"vars\":[", evbuf); }
                else fprintf(out, "\"hasdesc\":false,\"desc\":[],\"vars\":[");
                for (int j = 0; j < h->nvars; j++) {
                        struct hvar *hv = &h->vars[j];
                        evlen = 0;
                        if (hv->v->name) ev_bytes((const uint8_t *)hv->v->name, strlen(hv->v->name)); else ev_printf("[]");
                        fprintf(out, "%s{\"type\":%d,\"size\":%zu,\"acc\":%d,\"hasname\":%s,\"name\":%s,\"vr\":%s,\"vw\":%s,\"mem\":",
                                j ? "," : "", hv->type, hv->size, hv->acc, hv->v->name ? "true" : "false", evbuf,
                                hv->v->read ? "true" : "false", hv->v->write ? "true" : "false");
                        evlen = 0; ev_canon(hv->type, hv->size, hv->shadow);
                        fprintf(out, "%s}", evbuf);
                }
                fprintf(out, "]}");
        }
        fprintf(out, "]}\n");
        evlen = 0;
}

static void finish_cfg(void)
{
        if (ncmds == 0) die("no commands");
        group_ptrs = calloc((size_t)ngroups, sizeof *group_ptrs);
        for (int g = 0; g < ngroups; g++) {
                if (group_n[g] == 0) die("empty group");
                struct cat_command *arr = calloc((size_t)group_n[g], sizeof *arr);
                groups[g] = calloc(1, sizeof *groups[g]);
                groups[g]->name = group_name[g]; groups[g]->cmd = arr; groups[g]->cmd_num = (size_t)group_n[g]; groups[g]->disable = group_disable[g] != 0;
                group_ptrs[g] = groups[g];
                for (int k = 0; k < group_n[g]; k++) {
                        struct hcmd *h = &cmds[group_first[g] + k];
                        struct cat_command *c = &arr[k];
                        h->c = c;
                        c->name = h->name; c->description = h->desc;
                        c->write = h->has[0] ? h_write : NULL; c->read = h->has[1] ? h_read : NULL;
                        c->run = h->has[2] ? h_run : NULL; c->test = h->has[3] ? h_test : NULL;
                        c->need_all_vars = h->need_all; c->only_test = h->only_test; c->disable = h->disable; c->implicit_write = h->implicit;
                        c->var_num = (size_t)h->nvars;
                        if (h->nvars) {
                                struct cat_variable *va = calloc((size_t)h->nvars, sizeof *va);
                                for (int j = 0; j < h->nvars; j++) { va[j] = *h->vars[j].v; free(h->vars[j].v); h->vars[j].v = &va[j]; }
                                c->var = va;
                        } else c->var = NULL;
                }
        }
        for (int i = ntab; i < ncmds; i++) {
                struct hcmd *h = &cmds[i];
                struct cat_command *c = calloc(1, sizeof *c);
                h->c = c;
                c->name = h->name; c->description = h->desc;
                c->write = h->has[0] ? h_write : NULL; c->read = h->has[1] ? h_read : NULL;
                c->run = h->has[2] ? h_run : NULL; c->test = h->has[3] ? h_test : NULL;
                c->need_all_vars = h->need_all; c->only_test = h->only_test; c->disable = h->disable; c->implicit_write = h->implicit;
                c->var_num = (size_t)h->nvars;
                if (h->nvars) {
                        struct cat_variable *va = calloc((size_t)h->nvars, sizeof *va);
                        for (int j = 0; j < h->nvars; j++) { va[j] = *h->vars[j].v; free(h->vars[j].v); h->vars[j].v = &va[j]; }
                        c->var = va;
                } else c->var = NULL;
        }
        buf_alloc = malloc(bufsize + 2 * CANARY); memset(buf_alloc, CANARY_BYTE, bufsize + 2 * CANARY);
        buf = buf_alloc + CANARY; memset(buf, 0xEE, bufsize);
        if (usize >= 0) {
                ubuf_alloc = malloc((size_t)usize + 2 * CANARY); memset(ubuf_alloc, CANARY_BYTE, (size_t)usize + 2 * CANARY);
                ubuf = ubuf_alloc + CANARY; memset(ubuf, 0xEE, (size_t)usize);
                acap = bufsize; ucap = (size_t)usize;
        } else {
                acap = bufsize >> 1; ucap = bufsize >> 1; ubuf = buf + (bufsize >> 1);
        }
        desc.cmd_group = group_ptrs; desc.cmd_group_num = (size_t)ngroups;
        desc.buf = buf; desc.buf_size = bufsize;
        desc.unsolicited_buf = usize >= 0 ? ubuf : NULL; desc.unsolicited_buf_size = usize >= 0 ? (size_t)usize : 0;
        io_if.read = cb_read; io_if.write = cb_write; mtx_if.lock = cb_lock; mtx_if.unlock = cb_unlock;
        at = malloc(sizeof *at); memset(at, fill_byte, sizeof *at);
        snap_size = snap_total();
        snap_entry = malloc(snap_size + 1); snap_unlock = malloc(snap_size + 1);
        half_copy = malloc(bufsize + (usize >= 0 ? (size_t)usize : 0) + 1);
        if (fill_byte) grain_step = 0;   /* stale pointers in the object must not be dereferenced by the projection */
        cat_init(at, &desc, &io_if, use_mutex ? &mtx_if : NULL);
        emit_cfg();
}

static void end_scenario(void)
{
        if (!scenario_open) return;
        flush_merged(last_svc_ret);
        fprintf(out, "{\"e\":\"end\",\"sid\":%ld,\"inleft\":%zu}\n", sid, in_tail - in_head);
        teardown();
        scenario_open = 0; open_ev = 0; ev_sp = 0;
}

static long kv_long(char **tok, int ntok, const char *key, long dflt)
{
        size_t kl = strlen(key);
        for (int i = 0; i < ntok; i++) if (!strncmp(tok[i], key, kl) && tok[i][kl] == '=') return atol(tok[i] + kl + 1);
        return dflt;
}
static const char *kv_str(char **tok, int ntok, const char *key)
{
        size_t kl = strlen(key);
        for (int i = 0; i < ntok; i++) if (!strncmp(tok[i], key, kl) && tok[i][kl] == '=') return tok[i] + kl + 1;
        return NULL;
}

static int cfg_done;

static void process_line(char *line)
{
        char *tok[64]; int n = 0; char *save = NULL;
        for (char *t = strtok_r(line, " \t\r\n", &save); t && n < 64; t = strtok_r(NULL, " \t\r\n", &save)) tok[n++] = t;
        if (n == 0 || tok[0][0] == '#') return;
        const char *op = tok[0];
        if (!strcmp(op, "scenario")) { end_scenario(); teardown(); sid = atol(tok[1]); scenario_open = 1; cfg_done = 0; return; }
        if (!scenario_open) die("op '%s' outside scenario", op);
        if (!cfg_done) {
                if (!strcmp(op, "qcap")) { if (atoi(tok[1]) != (int)CAT_UNSOLICITED_CMD_BUFFER_SIZE) die("scenario needs qcap %s, binary has %d", tok[1], (int)CAT_UNSOLICITED_CMD_BUFFER_SIZE); }
                else if (!strcmp(op, "buf")) { bufsize = (size_t)atol(tok[1]); usize = n > 2 ? atol(tok[2]) : -1; }
                else if (!strcmp(op, "mutex")) use_mutex = atoi(tok[1]);
                else if (!strcmp(op, "fill")) fill_byte = atoi(tok[1]);
                else if (!strcmp(op, "grain")) { grain_step = !strcmp(tok[1], "step"); compact = !strcmp(tok[1], "compact"); }
                else if (!strcmp(op, "auto")) snprintf(autoq, sizeof autoq, "%s", n > 1 ? tok[1] : "");
                else if (!strcmp(op, "hdef")) { hdef[0] = atoi(tok[1]); hdef[1] = atoi(tok[2]); hdef[2] = atoi(tok[3]); hdef[3] = atoi(tok[4]); }
                else if (!strcmp(op, "group")) {
                        if (ngroups >= MAXG) die("too many groups");
                        size_t l; group_disable[ngroups] = atoi(tok[1]); group_first[ngroups] = ncmds; group_n[ngroups] = 0;
                        group_name[ngroups] = (n > 2 && strcmp(tok[2], "-")) ? (!strcmp(tok[2], "E") ? calloc(1, 1) : (char *)unhex(tok[2], &l)) : NULL;
                        ngroups++;
                }
                else if (!strcmp(op, "cmd") || !strcmp(op, "xcmd")) {
                        /* xcmd: a command descriptor that is NOT registered in any group (only usable with the trigger functions) */
                        int ext = op[0] == 'x';
                        if (ngroups == 0) die("cmd before group");
                        if (ncmds >= MAXC) die("too many cmds");
                        if (n < 11) die("cmd: need 10 fields");
                        if (!ext && ncmds > 0 && cmds[ncmds - 1].group < 0) die("cmd after xcmd");
                        struct hcmd *h = &cmds[ncmds++]; size_t l;
                        if (ext) h->group = -1; else { h->group = ngroups - 1; group_n[ngroups - 1]++; ntab = ncmds; }
                        h->name = (char *)unhex(tok[1], &l);
                        if (!strcmp(tok[2], "-")) h->desc = NULL;
                        else if (!strcmp(tok[2], "E")) h->desc = calloc(1, 1);
                        else h->desc = (char *)unhex(tok[2], &l);
                        for (int k = 0; k < 4; k++) h->has[k] = atoi(tok[3 + k]);
                        h->need_all = atoi(tok[7]); h->only_test = atoi(tok[8]); h->disable = atoi(tok[9]); h->implicit = atoi(tok[10]);
                } else if (!strcmp(op, "var")) {
                        if (ncmds == 0) die("var before cmd");
                        if (n < 8) die("var: need 7 fields");
                        struct hcmd *h = &cmds[ncmds - 1];
                        if (h->nvars >= MAXV) die("too many vars");
                        struct hvar *hv = &h->vars[h->nvars++]; size_t l;
                        hv->type = atoi(tok[1]); hv->size = (size_t)atol(tok[2]); hv->acc = atoi(tok[3]);
                        hv->alloc = malloc(hv->size + 2 * CANARY); memset(hv->alloc, CANARY_BYTE, hv->size + 2 * CANARY);
                        hv->shadow = calloc(hv->size + 1, 1);
                        uint8_t *m = unhex(tok[7], &l);
                        if (l != hv->size) die("var: mem length %zu != size %zu", l, hv->size);
                        memcpy(hv->alloc + CANARY, m, l); memcpy(hv->shadow, m, l); free(m);
                        hv->v = calloc(1, sizeof *hv->v);
                        if (!strcmp(tok[4], "-")) hv->v->name = NULL;
                        else if (!strcmp(tok[4], "E")) hv->v->name = calloc(1, 1);
                        else hv->v->name = (char *)unhex(tok[4], &l);
                        hv->v->type = (cat_var_type)hv->type; hv->v->data = hv->alloc + CANARY; hv->v->data_size = hv->size;
                        hv->v->access = (cat_var_access)hv->acc;
                        hv->v->read = atoi(tok[5]) ? v_read : NULL; hv->v->write = atoi(tok[6]) ? v_write : NULL;
                } else if (!strcmp(op, "end_cfg")) { finish_cfg(); cfg_done = 1; }
                else die("unknown cfg op '%s'", op);
                return;
        }
        /* scripts and ops */
        if (!strcmp(op, "hs")) {
                /* hs <cmd> <w|r|x|t> <c|e> ret=<int> [data=<hex>] [size=<n>] [act=<a:b;c:d>] */
                int c = atoi(tok[1]); int kind = tok[2][0] == 'w' ? 0 : tok[2][0] == 'r' ? 1 : tok[2][0] == 'x' ? 2 : 3; int fsm = tok[3][0] == 'e';
                if (c < 0 || c >= ncmds) die("hs: bad cmd");
                struct script_entry e; memset(&e, 0, sizeof e);
                e.ret = (int)kv_long(tok, n, "ret", hdef[kind]); e.size = kv_long(tok, n, "size", -1);
                const char *d = kv_str(tok, n, "data");
                if (d) { e.has_data = 1; e.data = unhex(d, &e.data_len); }
                const char *a = kv_str(tok, n, "act");
                if (a) e.acts = strdup(a);
                script_push(&cmds[c].hs[kind][fsm], e);
        } else if (!strcmp(op, "vs")) {
                /* vs <cmd> <var> <r|w> ret=<int> [act=...] */
                int c = atoi(tok[1]), v = atoi(tok[2]);
                if (c < 0 || c >= ncmds || v < 0 || v >= cmds[c].nvars) die("vs: bad var");
                struct script_entry e; memset(&e, 0, sizeof e);
                e.ret = (int)kv_long(tok, n, "ret", 0); e.size = -1;
                const char *a = kv_str(tok, n, "act");
                if (a) e.acts = strdup(a);
                script_push(tok[3][0] == 'r' ? &cmds[c].vars[v].sr : &cmds[c].vars[v].sw, e);
        } else if (!strcmp(op, "ls")) { if (nlock_s < 256) { lock_s[nlock_s].k = atol(tok[1]); lock_s[nlock_s++].ret = atoi(tok[2]); } }
        else if (!strcmp(op, "us")) { if (nunlock_s < 256) { unlock_s[nunlock_s].k = atol(tok[1]); unlock_s[nunlock_s++].ret = atoi(tok[2]); } }
        else if (!strcmp(op, "feed")) {
                size_t l; uint8_t *b = unhex(tok[1], &l);
                if (in_tail + l > sizeof inq) die("input too long");
                memcpy(inq + in_tail, b, l); in_tail += l; free(b);
        } else if (!strcmp(op, "rds")) { size_t l = strlen(tok[1]); if (rd_tail + l > sizeof rdq) die("rds too long"); memcpy(rdq + rd_tail, tok[1], l); rd_tail += l; }
        else if (!strcmp(op, "wrs")) { size_t l = strlen(tok[1]); if (wr_tail + l > sizeof wrq) die("wrs too long"); memcpy(wrq + wr_tail, tok[1], l); wr_tail += l; }
        else if (!strcmp(op, "svc")) {
                long k = n > 1 ? atol(tok[1]) : 1;
                for (long i = 0; i < k; i++) { call_service(); if (!compact) auto_queries(); }
                if (compact) { flush_merged(last_svc_ret); auto_queries(); }
        } else if (!strcmp(op, "settle")) {
                /* call until OK (at most max calls), then once more (C15 epilogue) */
                long max = n > 1 ? atol(tok[1]) : 100000; long i = 0, r = 1;
                while (i < max) { r = call_service(); i++; if (!compact) auto_queries(); if (r == 0 && in_head == in_tail) break; }
                if (r == 0 && in_head != in_tail) r = 1;
                flush_merged(last_svc_ret);
                if (compact) auto_queries();
                fprintf(out, "{\"e\":\"env\",\"f\":\"settled\",\"ok\":%s,\"calls\":%ld}\n", r == 0 ? "true" : "false", i);
                if (r == 0) { int sc = compact; compact = 0; int sg = grain_step; call_service(); grain_step = sg; compact = sc; auto_queries(); }
        } else if (!strcmp(op, "roundtrip")) {
                /* roundtrip <cmd> [max]: AT<name>? ; take the payload after '=' ; AT<name>=<payload> (C07) */
                int c = atoi(tok[1]); long max = n > 2 ? atol(tok[2]) : 20000; long i = 0, r = 1;
                if (c < 0 || c >= ncmds) die("roundtrip: bad cmd");
                const char *nm = cmds[c].name; size_t nl = strlen(nm);
                size_t start = outcap_len;
                if (in_tail + nl + 4 > sizeof inq) die("input too long");
                memcpy(inq + in_tail, "AT", 2); memcpy(inq + in_tail + 2, nm, nl); memcpy(inq + in_tail + 2 + nl, "?\n", 2); in_tail += nl + 4;
                while (i < max) { r = call_service(); i++; if (r == 0 && in_head == in_tail) break; }
                flush_merged(last_svc_ret);
                /* first unit: skip leading CR/LF, take up to the next LF */
                size_t p = start; while (p < outcap_len && (outcap[p] == '\n' || outcap[p] == '\r')) p++;
                size_t e = p; while (e < outcap_len && outcap[e] != '\n') e++;
                if (e > p && outcap[e - 1] == '\r') e--;
                size_t eq = p; while (eq < e && outcap[eq] != '=') eq++;
                if (eq < e && e < outcap_len && (e - p) > nl && memcmp(outcap + p, nm, nl) == 0 && eq == p + nl) {
                        fprintf(out, "{\"e\":\"env\",\"f\":\"note\",\"t\":\"rt_begin\"}\n");
                        size_t al = e - eq - 1;
                        if (in_tail + nl + al + 4 > sizeof inq) die("input too long");
                        memcpy(inq + in_tail, "AT", 2); memcpy(inq + in_tail + 2, nm, nl); inq[in_tail + 2 + nl] = '=';
                        memcpy(inq + in_tail + 3 + nl, outcap + eq + 1, al); inq[in_tail + 3 + nl + al] = '\n'; in_tail += nl + al + 4;
                        i = 0;
                        while (i < max) { r = call_service(); i++; if (r == 0 && in_head == in_tail) break; }
                        flush_merged(last_svc_ret);
                        fprintf(out, "{\"e\":\"env\",\"f\":\"note\",\"t\":\"rt_end\"}\n");
                } else {
                        fprintf(out, "{\"e\":\"env\",\"f\":\"note\",\"t\":\"rt_skipped\"}\n");
                }
        } else if (!strcmp(op, "note")) {
                flush_merged(last_svc_ret);
                fprintf(out, "{\"e\":\"env\",\"f\":\"note\",\"t\":\"%s\"}\n", n > 1 ? tok[1] : "");
        } else {
                flush_merged(last_svc_ret);
                do_api(op, tok + 1, n - 1);
        }
}

/* ------------------------------------------------------------------ crash reporting */

static void crash_record(const char *kind)
{
        /* async-signal-unsafe on purpose: the process is going down anyway */
        if (out) {
                if (open_ev > 0) { evlen = ev_safe_len; evbuf[evlen] = 0; ev_count = evlen ? 1 : 0; }
                if (in_call > 0 || evlen) fprintf(out, "{\"e\":\"api\",\"f\":\"%s\",\"a\":[%s],\"ev\":[%s%s{\"k\":\"crash\",\"kind\":\"%s\"}],\"ret\":-99}\n",
                                                  call_name[0] ? call_name : "none", call_args, evlen ? evbuf : "", (evlen && ev_count) ? "," : "", kind);
                else fprintf(out, "{\"e\":\"api\",\"f\":\"none\",\"a\":[],\"ev\":[{\"k\":\"crash\",\"kind\":\"%s\"}],\"ret\":-99}\n", kind);
                fprintf(out, "{\"e\":\"end\",\"sid\":%ld,\"inleft\":0}\n", sid);
                fflush(out);
        }
}

static int crashed;
static void on_signal(int sig)
{
        if (!crashed) { crashed = 1; crash_record(sig == SIGSEGV ? "segv" : sig == SIGABRT ? "abort" : sig == SIGFPE ? "fpe" : sig == SIGBUS ? "bus" : "signal"); }
        _exit(4);
}

void __asan_on_error(void);
void __asan_on_error(void)
{
        if (!crashed) { crashed = 1; crash_record("asan"); }
}

static void on_alarm(int sig)
{
        (void)sig;
        if (!crashed) { crashed = 1; crash_record("timeout"); }
        _exit(5);
}

int main(int argc, char **argv)
{
        if (argc < 2) { fprintf(stderr, "usage: catdrv <out.ndjson> [scenario...]\n"); return 2; }
        out = fopen(argv[1], "w");
        if (!out) { perror(argv[1]); return 2; }
        static char obuf[1 << 16];
        setvbuf(out, obuf, _IOFBF, sizeof obuf);
        evcap = 4096; evbuf = malloc(evcap); evbuf[0] = 0;
        usize = -1;
        signal(SIGSEGV, on_signal); signal(SIGABRT, on_signal); signal(SIGFPE, on_signal); signal(SIGBUS, on_signal); signal(SIGILL, on_signal);
        signal(SIGALRM, on_alarm);
        const char *lim = getenv("CATDRV_TIMEOUT");
        alarm(lim ? (unsigned)atoi(lim) : 600);
        char *line = NULL; size_t cap = 0;
        for (int i = 2; i < argc || (argc == 2 && i == 2); i++) {
                FILE *f = argc == 2 ? stdin : fopen(argv[i], "r");
                if (!f) { perror(argv[i]); return 2; }
                while (getline(&line, &cap, f) >= 0) process_line(line);
                if (f != stdin) fclose(f);
        }
        end_scenario();
        free(line);
        fclose(out);
        return 0;
}
