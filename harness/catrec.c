/*
 * catrec - recorder for programs that use the cAT library through its public API (the repository's own tests).
 *
 * Linked with -Wl,--wrap=<every public function> in front of an unmodified test program and src/cat.c.  cat_init is given a
 * shadow copy of the descriptor whose callbacks are trampolines; every API call and every callback is written in the ndjson
 * format of harness/catdrv.c (DESIGN.md appendix C), so the same trace specification (spec/CatTrace.tla: CatImpl at step
 * grain + the CatMon monitors) validates the execution.  Differences to catdrv:
 *   - the program, not a script, decides callback results; variable storage changed by the program is reported as setmem;
 *   - commands that are not registered in the descriptor but are passed to the trigger functions are appended to the
 *     configuration record after the table ("ntab" = number of registered commands);
 *   - every cat_init starts a new scenario; records are buffered and written when the scenario ends (next cat_init / exit).
 * Output file: $CATREC_OUT (appended).  Without it the program runs unrecorded.
 */
#define _GNU_SOURCE
#include <inttypes.h>
#include <signal.h>
#include <stdarg.h>
#include <stdbool.h>
#include <stdint.h>
#include <stdio.h>
#include <stdlib.h>
#include <string.h>
#include <unistd.h>

#include "cat.h"

#define MAXG 16
#define MAXC 160
#define MAXV 16
#ifndef NO_PROJ
#define STEP_GRAIN "true"
#else
#define STEP_GRAIN "false"
#endif

/* variables may have no storage at all (data NULL, size 0) */
static void cpy(void *d, const void *s, size_t n) { if (n && d && s) memcpy(d, s, n); }
static int differs(const void *a, const void *b, size_t n) { return (n && a && b) ? memcmp(a, b, n) != 0 : 0; }

/* ------------------------------------------------------------------ real functions */
void __real_cat_init(struct cat_object *, const struct cat_descriptor *, const struct cat_io_interface *, const struct cat_mutex_interface *);
cat_status __real_cat_service(struct cat_object *);
cat_status __real_cat_is_busy(struct cat_object *);
cat_status __real_cat_is_hold(struct cat_object *);
cat_status __real_cat_is_unsolicited_buffer_full(struct cat_object *);
cat_status __real_cat_trigger_unsolicited_event(struct cat_object *, struct cat_command const *, cat_cmd_type);
cat_status __real_cat_trigger_unsolicited_read(struct cat_object *, struct cat_command const *);
cat_status __real_cat_trigger_unsolicited_test(struct cat_object *, struct cat_command const *);
cat_status __real_cat_hold_exit(struct cat_object *, cat_status);
struct cat_command const *__real_cat_search_command_by_name(struct cat_object *, const char *);
struct cat_command_group const *__real_cat_search_command_group_by_name(struct cat_object *, const char *);
struct cat_variable const *__real_cat_search_variable_by_name(struct cat_object *, struct cat_command const *, const char *);
struct cat_command const *__real_cat_get_processed_command(struct cat_object *, cat_fsm_type);
cat_status __real_cat_is_unsolicited_event_buffered(struct cat_object *, struct cat_command const *, cat_cmd_type);

/* ------------------------------------------------------------------ state */
struct rvar { const struct cat_variable *orig; struct cat_variable *sh; uint8_t *last; size_t size; int type; };
struct rcmd { const struct cat_command *orig; struct cat_command *sh; int group; int nvars; struct rvar vars[MAXV]; bool disable, only_test, init_disable, init_only_test; uint8_t **init_mem; };

static FILE *out;
static char *body; static size_t body_len; static FILE *bodyf;      /* records of the open scenario */
static char *evbuf; static size_t evlen, evcap; static int ev_count;
static int ev_count_stack[16]; static int ev_sp;
static int in_call;

static struct cat_object *at;
static const struct cat_descriptor *odesc; static struct cat_descriptor sdesc;
static const struct cat_io_interface *oio; static struct cat_io_interface sio;
static const struct cat_mutex_interface *omx; static struct cat_mutex_interface smx;
static struct cat_command_group *sgroups[MAXG]; static struct cat_command_group **sgroup_ptrs; static int ngroups; static bool gdisable[MAXG], ginit[MAXG];
static struct rcmd cmds[MAXC]; static int ncmds, ntab;
static uint8_t *buf, *ubuf; static size_t bufsize, acap, ucap; static long usize;
static long sid; static int scenario_open;
static size_t in_off;
static long lock_n, unlock_n;
static uint8_t *snap_entry, *snap_unlock; static size_t snap_size; static int call_unlock_seen;
static uint8_t *half_copy; static int half_cmd_idle, half_ev_idle;
static char call_name[32]; static char call_args[160];
static int fill_flag;            /* the object did not consist of zero bytes before cat_init (re-initialised object, stack garbage) */
static int unsupported;           /* the program did something the trace format cannot express: stop recording this scenario */

static void die(const char *fmt, ...)
{
        va_list ap; va_start(ap, fmt);
        fprintf(stderr, "catrec: "); vfprintf(stderr, fmt, ap); fprintf(stderr, "\n");
        va_end(ap);
        _exit(3);
}

static void ev_printf(const char *fmt, ...)
{
        va_list ap;
        if (evbuf == NULL) { evcap = 256; evlen = 0; evbuf = malloc(evcap); if (!evbuf) die("oom"); evbuf[0] = 0; }
        for (;;) {
                va_start(ap, fmt);
                int n = vsnprintf(evbuf + evlen, evcap - evlen, fmt, ap);
                va_end(ap);
                if (n < 0) die("vsnprintf");
                if ((size_t)n < evcap - evlen) { evlen += (size_t)n; return; }
                evcap = evcap * 2 + (size_t)n + 64;
                evbuf = realloc(evbuf, evcap);
                if (!evbuf) die("oom");
        }
}

static void ev_bytes(const uint8_t *p, size_t n)
{
        ev_printf("[");
        for (size_t i = 0; i < n; i++) ev_printf(i ? ",%u" : "%u", p[i]);
        ev_printf("]");
}

static void ev_begin(void) { if (ev_count++) ev_printf(","); }
static void ev_nest_push(void) { if (ev_sp < 16) ev_count_stack[ev_sp++] = ev_count; ev_count = 0; }
static void ev_nest_pop(void) { if (ev_sp > 0) ev_count = ev_count_stack[--ev_sp]; }

static void ev_canon(int type, size_t size, const uint8_t *p)
{
        char tmp[32];
        if (type <= CAT_VAR_NUM_HEX && (size == 1 || size == 2 || size == 4)) {
                uint32_t u = 0; int32_t s = 0;
                if (size == 1) { u = *(const uint8_t *)p; s = *(const int8_t *)p; }
                if (size == 2) { uint16_t x; memcpy(&x, p, 2); u = x; s = (int16_t)x; }
                if (size == 4) { memcpy(&u, p, 4); s = (int32_t)u; }
                if (type == CAT_VAR_INT_DEC) snprintf(tmp, sizeof tmp, "%" PRId32, s);
                else if (type == CAT_VAR_UINT_DEC) snprintf(tmp, sizeof tmp, "%" PRIu32, u);
                else snprintf(tmp, sizeof tmp, "%0*" PRIX32, (int)(2 * size), u);
                ev_bytes((const uint8_t *)tmp, strlen(tmp));
                return;
        }
        ev_bytes(p, size);
}

/* ------------------------------------------------------------------ lookup */
static int idx_sh(const struct cat_command *c) { if (c) for (int i = 0; i < ncmds; i++) if (cmds[i].sh == c) return i; return -1; }
static int idx_orig(const struct cat_command *c) { if (c) for (int i = 0; i < ncmds; i++) if (cmds[i].orig == c) return i; return -1; }

static int var_sh(const struct cat_variable *v, int *ci, int *vi)
{
        int flat = 0;
        for (int i = 0; i < ncmds; i++)
                for (int j = 0; j < cmds[i].nvars; j++, flat++)
                        if (cmds[i].vars[j].sh == v) { if (ci) *ci = i; if (vi) *vi = j; return flat; }
        return -1;
}

/* ------------------------------------------------------------------ trampolines */
static void sync_env(void);
static void put_name(FILE *f, const char *s);
static void handler_mem(uint8_t **before);
static uint8_t **mem_before(void);

static int fsm_of(const uint8_t *data) { return (data == ubuf && data != buf) ? 1 : 0; }
static const char *kind_name[4] = { "write", "read", "run", "test" };

static cat_return_state t_rt(int kind, const struct cat_command *cmd, uint8_t *data, size_t *data_size, size_t max)
{
        int ci = idx_sh(cmd);
        if (ci < 0) die("handler for an unknown command");
        int fsm = fsm_of(data);
        size_t truecap = fsm ? ucap : acap;
        size_t lim = max < truecap ? max : truecap;
        ev_begin();
        ev_printf("{\"k\":\"cmd\",\"kind\":\"%s\",\"c\":%d,\"fsm\":\"%s\",\"data\":", kind_name[kind], ci, fsm ? "ev" : "cmd");
        ev_bytes(data, strnlen((char *)data, lim));
        ev_printf(",\"size\":%zu,\"aux\":%zu", *data_size, max);
        size_t mark = evlen;                          /* nested events are collected first, the handler's result is known afterwards */
        char *saved = NULL; size_t saved_len = 0;
        /* events inside the handler go to a separate buffer */
        char *obuf = evbuf; size_t olen = evlen, ocap = evcap; int ocount = ev_count;
        evbuf = NULL; evlen = 0; evcap = 0; ev_count = 0; ev_printf("%s", "");
        uint8_t **mb = mem_before();
        cat_return_state ret = (kind == 1 ? cmds[ci].orig->read : cmds[ci].orig->test)(cmds[ci].orig, data, data_size, max);
        handler_mem(mb);
        sync_env();
        saved = evbuf; saved_len = evlen;
        evbuf = obuf; evlen = olen; evcap = ocap; ev_count = ocount; (void)mark;
        ev_printf(",\"ret\":%d,\"data2\":", (int)ret);
        ev_bytes(data, strnlen((char *)data, lim));
        ev_printf(",\"size2\":%zu,\"in\":[%.*s]}", *data_size, (int)saved_len, saved ? saved : "");
        free(saved);
        return ret;
}

static cat_return_state t_read(const struct cat_command *cmd, uint8_t *data, size_t *data_size, const size_t max) { return t_rt(1, cmd, data, data_size, max); }
static cat_return_state t_test(const struct cat_command *cmd, uint8_t *data, size_t *data_size, const size_t max) { return t_rt(3, cmd, data, data_size, max); }

static cat_return_state t_write(const struct cat_command *cmd, const uint8_t *data, const size_t data_size, const size_t args_num)
{
        int ci = idx_sh(cmd);
        if (ci < 0) die("handler for an unknown command");
        size_t n = data_size < acap ? data_size : acap;
        ev_begin();
        ev_printf("{\"k\":\"cmd\",\"kind\":\"write\",\"c\":%d,\"fsm\":\"cmd\",\"data\":", ci);
        ev_bytes(data, n);
        ev_printf(",\"size\":%zu,\"aux\":%zu,\"nul\":%s", data_size, args_num, (data_size < acap && data[data_size] == 0) ? "true" : "false");
        char *obuf = evbuf; size_t olen = evlen, ocap = evcap; int ocount = ev_count;
        evbuf = NULL; evlen = 0; evcap = 0; ev_count = 0; ev_printf("%s", "");
        uint8_t **mb = mem_before();
        cat_return_state ret = cmds[ci].orig->write(cmds[ci].orig, data, data_size, args_num);
        handler_mem(mb);
        sync_env();
        char *saved = evbuf; size_t saved_len = evlen;
        evbuf = obuf; evlen = olen; evcap = ocap; ev_count = ocount;
        ev_printf(",\"ret\":%d,\"data2\":[],\"size2\":0,\"in\":[%.*s]}", (int)ret, (int)saved_len, saved ? saved : "");
        free(saved);
        return ret;
}

static cat_return_state t_run(const struct cat_command *cmd)
{
        int ci = idx_sh(cmd);
        if (ci < 0) die("handler for an unknown command");
        ev_begin();
        ev_printf("{\"k\":\"cmd\",\"kind\":\"run\",\"c\":%d,\"fsm\":\"cmd\",\"data\":[],\"size\":0,\"aux\":0", ci);
        char *obuf = evbuf; size_t olen = evlen, ocap = evcap; int ocount = ev_count;
        evbuf = NULL; evlen = 0; evcap = 0; ev_count = 0; ev_printf("%s", "");
        uint8_t **mb = mem_before();
        cat_return_state ret = cmds[ci].orig->run(cmds[ci].orig);
        handler_mem(mb);
        sync_env();
        char *saved = evbuf; size_t saved_len = evlen;
        evbuf = obuf; evlen = olen; evcap = ocap; ev_count = ocount;
        ev_printf(",\"ret\":%d,\"data2\":[],\"size2\":0,\"in\":[%.*s]}", (int)ret, (int)saved_len, saved ? saved : "");
        free(saved);
        return ret;
}

static int t_vread(const struct cat_variable *var)
{
        int ci = -1, vi = -1;
        if (var_sh(var, &ci, &vi) < 0) die("callback of an unknown variable");
        char *obuf = evbuf; size_t olen = evlen, ocap = evcap; int ocount = ev_count;
        evbuf = NULL; evlen = 0; evcap = 0; ev_count = 0; ev_printf("%s", "");
        uint8_t **mb = mem_before();
        int ret = cmds[ci].vars[vi].orig->read(cmds[ci].vars[vi].orig);
        handler_mem(mb);
        sync_env();
        char *saved = evbuf; size_t saved_len = evlen;
        evbuf = obuf; evlen = olen; evcap = ocap; ev_count = ocount;
        ev_begin();
        ev_printf("{\"k\":\"vr\",\"c\":%d,\"v\":%d,\"r\":%d,\"in\":[%.*s]}", ci, vi, ret, (int)saved_len, saved ? saved : "");
        free(saved);
        return ret;
}

static int t_vwrite(const struct cat_variable *var, const size_t write_size)
{
        int ci = -1, vi = -1;
        if (var_sh(var, &ci, &vi) < 0) die("callback of an unknown variable");
        char *obuf = evbuf; size_t olen = evlen, ocap = evcap; int ocount = ev_count;
        evbuf = NULL; evlen = 0; evcap = 0; ev_count = 0; ev_printf("%s", "");
        uint8_t **mb = mem_before();
        int ret = cmds[ci].vars[vi].orig->write(cmds[ci].vars[vi].orig, write_size);
        handler_mem(mb);
        sync_env();
        char *saved = evbuf; size_t saved_len = evlen;
        evbuf = obuf; evlen = olen; evcap = ocap; ev_count = ocount;
        ev_begin();
        ev_printf("{\"k\":\"vw\",\"c\":%d,\"v\":%d,\"ws\":%zu,\"r\":%d,\"in\":[%.*s]}", ci, vi, write_size, ret, (int)saved_len, saved ? saved : "");
        free(saved);
        return ret;
}

static int t_ioread(char *ch)
{
        int r = oio->read(ch);
        ev_begin();
        if (r == 1) { ev_printf("{\"k\":\"rd\",\"b\":%u,\"off\":%zu}", (uint8_t)*ch, in_off); in_off++; }
        else { ev_printf("{\"k\":\"rd\",\"b\":-1,\"off\":%zu}", in_off); if (r != 0) unsupported = 1; }
        return r;
}

static int t_iowrite(char ch)
{
        int r = oio->write(ch);
        ev_begin();
        ev_printf("{\"k\":\"wr\",\"b\":%u,\"ok\":%s,\"r\":%d}", (uint8_t)ch, r == 1 ? "true" : "false", r);
        return r;
}

/* ------------------------------------------------------------------ snapshots for the mutex bracket (as in catdrv) */
static size_t snap_total(void)
{
        size_t n = sizeof(struct cat_object) + bufsize + (usize >= 0 ? (size_t)usize : 0);
        for (int i = 0; i < ncmds; i++) for (int j = 0; j < cmds[i].nvars; j++) n += cmds[i].vars[j].size;
        return n;
}

static void snap_take(uint8_t *dst)
{
        size_t o = 0;
        memcpy(dst + o, at, sizeof(struct cat_object)); o += sizeof(struct cat_object);
        memcpy(dst + o, buf, bufsize); o += bufsize;
        if (usize >= 0) { memcpy(dst + o, ubuf, (size_t)usize); o += (size_t)usize; }
        for (int i = 0; i < ncmds; i++)
                for (int j = 0; j < cmds[i].nvars; j++) { cpy(dst + o, cmds[i].vars[j].orig->data, cmds[i].vars[j].orig->data ? cmds[i].vars[j].size : 0); o += cmds[i].vars[j].size; }
}

static int snap_same(const uint8_t *ref)
{
        uint8_t *cur = malloc(snap_size ? snap_size : 1);
        snap_take(cur);
        int same = memcmp(cur, ref, snap_size) == 0;
        free(cur);
        return same;
}

static int t_lock(void)
{
        int r = omx->lock();
        lock_n++;
        int clean = snap_same(snap_entry);
        ev_begin();
        ev_printf("{\"k\":\"lock\",\"r\":%d,\"n\":%ld,\"clean\":%s}", r, lock_n, clean ? "true" : "false");
        return r;
}

static int t_unlock(void)
{
        snap_take(snap_unlock);
        int r = omx->unlock();
        unlock_n++;
        call_unlock_seen = 1;
        ev_begin();
        ev_printf("{\"k\":\"unlock\",\"r\":%d,\"n\":%ld}", r, unlock_n);
        return r;
}

/* ------------------------------------------------------------------ shadow descriptors */
static void shadow_cmd(struct rcmd *r, const struct cat_command *o, struct cat_command *s, int group)
{
        r->orig = o; r->sh = s; r->group = group;
        *s = *o;
        s->write = o->write ? t_write : NULL; s->read = o->read ? t_read : NULL;
        s->run = o->run ? t_run : NULL; s->test = o->test ? t_test : NULL;
        r->disable = r->init_disable = o->disable; r->only_test = r->init_only_test = o->only_test;
        r->nvars = (o->var != NULL) ? (int)o->var_num : 0;
        if (r->nvars > MAXV) die("too many variables");
        if (r->nvars) {
                struct cat_variable *va = calloc((size_t)r->nvars, sizeof *va);
                for (int j = 0; j < r->nvars; j++) {
                        va[j] = o->var[j];
                        va[j].write = o->var[j].write ? t_vwrite : NULL;
                        va[j].read = o->var[j].read ? t_vread : NULL;
                        struct rvar *rv = &r->vars[j];
                        rv->orig = &o->var[j]; rv->sh = &va[j]; rv->size = o->var[j].data_size; rv->type = (int)o->var[j].type;
                        rv->last = malloc(rv->size ? rv->size : 1);
                        cpy(rv->last, o->var[j].data, rv->size);
                }
                s->var = va;
        }
        r->init_mem = calloc((size_t)(r->nvars ? r->nvars : 1), sizeof *r->init_mem);
        for (int j = 0; j < r->nvars; j++) { r->init_mem[j] = malloc(r->vars[j].size ? r->vars[j].size : 1); cpy(r->init_mem[j], r->vars[j].last, r->vars[j].size); }
}

/* a command the program passes to the API: registered one, or an unregistered one seen for the first time */
static const struct cat_command *to_shadow(const struct cat_command *o)
{
        if (o == NULL) return NULL;
        int i = idx_orig(o);
        if (i >= 0) return cmds[i].sh;
        if (idx_sh(o) >= 0) return o;
        if (ncmds >= MAXC) die("too many commands");
        struct cat_command *s = calloc(1, sizeof *s);
        shadow_cmd(&cmds[ncmds], o, s, 0);
        ncmds++;
        /* snapshots grow with the new variables */
        snap_size = snap_total();
        snap_entry = realloc(snap_entry, snap_size + 1); snap_unlock = realloc(snap_unlock, snap_size + 1);
        snap_take(snap_entry);
        return s;
}

/* ------------------------------------------------------------------ environment changes made by the program */
static void emit_setmem(int c, int v, int nested)
{
        struct rvar *rv = &cmds[c].vars[v];
        cpy(rv->last, rv->orig->data, rv->size);
        if (nested) {
                ev_begin(); ev_printf("{\"k\":\"setmem\",\"c\":%d,\"v\":%d,\"val\":", c, v); ev_canon(rv->type, rv->size, rv->last); ev_printf("}");
        } else {
                char *obuf = evbuf; size_t olen = evlen, ocap = evcap;
                evbuf = NULL; evlen = 0; evcap = 0; ev_printf("%s", "");
                ev_canon(rv->type, rv->size, rv->last);
                fprintf(bodyf, "{\"e\":\"env\",\"f\":\"setmem\",\"c\":%d,\"v\":%d,\"val\":%s}\n", c, v, evbuf);
                free(evbuf); evbuf = obuf; evlen = olen; evcap = ocap;
        }
}

static void emit_flag(const char *t, int i, const char *fl, int val)
{
        if (in_call > 0) { ev_begin(); ev_printf("{\"k\":\"flag\",\"t\":\"%s\",\"i\":%d,\"fl\":\"%s\",\"val\":%s}", t, i, fl, val ? "true" : "false"); }
        else fprintf(bodyf, "{\"e\":\"env\",\"f\":\"flag\",\"t\":\"%s\",\"i\":%d,\"fl\":\"%s\",\"val\":%s}\n", t, i, fl, val ? "true" : "false");
}

/* flags the program changed in its own descriptors are copied to the shadow ones and logged */
static void sync_env(void)
{
        for (int g = 0; g < ngroups; g++) {
                bool d = odesc->cmd_group[g]->disable;
                if (d != gdisable[g]) { gdisable[g] = d; sgroups[g]->disable = d; emit_flag("group", g, "disable", d); }
                if (odesc->cmd_group[g]->name != sgroups[g]->name) {
                        sgroups[g]->name = odesc->cmd_group[g]->name;
                        if (in_call > 0) unsupported = 1;
                        else { fprintf(bodyf, "{\"e\":\"env\",\"f\":\"gname\",\"i\":%d,\"hasname\":%s,\"name\":", g, sgroups[g]->name ? "true" : "false"); put_name(bodyf, sgroups[g]->name); fprintf(bodyf, "}\n"); }
                }
        }
        for (int i = 0; i < ncmds; i++) {
                struct rcmd *r = &cmds[i];
                if (r->orig->disable != r->disable) { r->disable = r->orig->disable; r->sh->disable = r->disable; emit_flag("cmd", i, "disable", r->disable); }
                if (r->orig->only_test != r->only_test) { r->only_test = r->orig->only_test; r->sh->only_test = r->only_test; emit_flag("cmd", i, "only_test", r->only_test); }
                if (r->orig->need_all_vars != r->sh->need_all_vars || r->orig->implicit_write != r->sh->implicit_write) unsupported = 1;
        }
}

/* storage the program changed between two API calls */
static void sync_mem_top(void)
{
        for (int i = 0; i < ncmds; i++)
                for (int j = 0; j < cmds[i].nvars; j++)
                        if (differs(cmds[i].vars[j].last, cmds[i].vars[j].orig->data, cmds[i].vars[j].size)) emit_setmem(i, j, 0);
}

static int mem_before_n;          /* number of variables captured by the innermost mem_before (callbacks may nest) */
static uint8_t **mem_before(void)
{
        int n = 0;
        for (int i = 0; i < ncmds; i++) n += cmds[i].nvars;
        uint8_t **b = calloc((size_t)n + 2, sizeof *b);
        b[0] = (uint8_t *)(uintptr_t)n;
        n = 0;
        for (int i = 0; i < ncmds; i++)
                for (int j = 0; j < cmds[i].nvars; j++, n++) {
                        b[n + 1] = malloc(cmds[i].vars[j].size ? cmds[i].vars[j].size : 1);
                        cpy(b[n + 1], cmds[i].vars[j].orig->data, cmds[i].vars[j].size);
                }
        (void)mem_before_n;
        return b;
}

/* storage changed by the program's callback that just returned (commands registered during the callback are not compared) */
static void handler_mem(uint8_t **b)
{
        int total = (int)(uintptr_t)b[0];
        int n = 0;
        for (int i = 0; i < ncmds && n < total; i++)
                for (int j = 0; j < cmds[i].nvars && n < total; j++, n++) {
                        if (differs(b[n + 1], cmds[i].vars[j].orig->data, cmds[i].vars[j].size)) emit_setmem(i, j, 1);
                        free(b[n + 1]);
                }
        free(b);
}

/* ------------------------------------------------------------------ projection (as in catdrv) */
#ifndef NO_PROJ
static int wbuf_code(const char *p)
{
        if (p == NULL) return -1;
        if ((const uint8_t *)p >= buf && (const uint8_t *)p < buf + bufsize) return ((const uint8_t *)p >= ubuf && usize < 0) ? 3 : 2;
        if (usize >= 0 && (const uint8_t *)p >= ubuf && (const uint8_t *)p <= ubuf + usize) return 3;
        if (p[0] == '\r') return 0;
        if (p[0] == '\n') return 1;
        return -2;
}

static void print_state(FILE *f)
{
        struct cat_unsolicited_fsm *u = &at->unsolicited_fsm;
        fprintf(f, ",\"st\":{\"s\":%d,\"us\":%d,\"ch\":%u,\"cr\":%d,\"ct\":%d,\"cmd\":%d,\"var\":%d,\"idx\":%zu,\"par\":%zu,"
                "\"len\":%zu,\"pos\":%zu,\"ws\":%zu,\"imp\":%d,\"hold\":%d,\"hx\":%d,\"wb\":%d,\"wph\":%d,\"waf\":%d,"
                "\"upos\":%zu,\"uidx\":%zu,\"ucmd\":%d,\"uvar\":%d,\"uct\":%d,\"uwb\":%d,\"uwph\":%d,\"uwaf\":%d,"
                "\"head\":%zu,\"tail\":%zu,\"cnt\":%zu,\"ring\":[",
                (int)at->state, (int)u->state, (uint8_t)at->current_char, at->cr_flag ? 1 : 0, (int)at->cmd_type,
                idx_sh(at->cmd), var_sh(at->var, NULL, NULL), at->index, at->partial_cntr,
                at->length, at->position, at->write_size, at->implicit_write_flag ? 1 : 0, at->hold_state_flag ? 1 : 0,
                at->hold_exit_status, wbuf_code(at->write_buf), at->write_state, (int)at->write_state_after,
                u->position, u->index, idx_sh(u->cmd), var_sh(u->var, NULL, NULL), (int)u->cmd_type,
                wbuf_code(u->write_buf), u->write_state, (int)u->write_state_after,
                u->unsolicited_cmd_buffer_head, u->unsolicited_cmd_buffer_tail, u->unsolicited_cmd_buffer_items_count);
        for (size_t i = 0; i < CAT_UNSOLICITED_CMD_BUFFER_SIZE; i++)
                fprintf(f, "%s[%d,%d]", i ? "," : "", idx_sh(u->unsolicited_cmd_buffer[i].cmd), (int)u->unsolicited_cmd_buffer[i].type);
        fprintf(f, "]}");
}
static int cmd_idle(void) { return at->state == CAT_STATE_IDLE; }
static int ev_idle(void) { return at->unsolicited_fsm.state == CAT_UNSOLICITED_STATE_IDLE && at->unsolicited_fsm.unsolicited_cmd_buffer_items_count == 0; }
static int pc_index(void) { return idx_sh(at->cmd); }
#else
static void print_state(FILE *f) { (void)f; }
static int cmd_idle(void) { return 0; }
static int ev_idle(void) { return 0; }
static int pc_index(void) { return idx_sh(__real_cat_get_processed_command(at, CAT_FSM_TYPE_ATCMD)); }
#endif

/* ------------------------------------------------------------------ records */
static void begin_call(const char *name, const char *args)
{
        if (in_call++ > 0) {
                ev_begin();
                ev_printf("{\"k\":\"api\",\"f\":\"%s\",\"a\":[%s],\"ev\":[", name, args);
                ev_nest_push();
                return;
        }
        sync_env();
        sync_mem_top();
        snprintf(call_name, sizeof call_name, "%s", name);
        snprintf(call_args, sizeof call_args, "%s", args);
        evlen = 0; ev_count = 0; ev_printf("%s", "");
        call_unlock_seen = 0;
        if (omx) snap_take(snap_entry);
        half_cmd_idle = cmd_idle();
        half_ev_idle = ev_idle();
        memcpy(half_copy, buf, bufsize);
        if (usize >= 0) memcpy(half_copy + bufsize, ubuf, (size_t)usize);
}

/* two variables share storage (the same array of variable descriptors used by several commands, say) */
static int aliased(int c, int v)
{
        const struct rvar *a = &cmds[c].vars[v];
        const uint8_t *a0 = a->orig->data;
        if (!a0 || !a->size) return 0;
        for (int i = 0; i < ncmds; i++)
                for (int j = 0; j < cmds[i].nvars; j++) {
                        const struct rvar *b = &cmds[i].vars[j];
                        const uint8_t *b0 = b->orig->data;
                        if ((i == c && j == v) || !b0 || !b->size) continue;
                        if (a0 < b0 + b->size && b0 < a0 + a->size) return 1;
                }
        return 0;
}

/* stores made by the library during the call.  Storage shared with a variable of the command being processed changes as a
   consequence of the library's store to that variable: for the other descriptors it is an environment change (setmem after
   the record), not a store the library made to them. */
static int deferred[MAXC * MAXV][2]; static int ndeferred;
static void diff_mem(void)
{
        int pc = pc_index();
        ndeferred = 0;
        for (int i = 0; i < ncmds; i++)
                for (int j = 0; j < cmds[i].nvars; j++) {
                        struct rvar *rv = &cmds[i].vars[j];
                        if (differs(rv->last, rv->orig->data, rv->size)) {
                                if (i != pc && aliased(i, j)) { deferred[ndeferred][0] = i; deferred[ndeferred][1] = j; ndeferred++; continue; }
                                ev_begin();
                                ev_printf("{\"k\":\"mem\",\"c\":%d,\"v\":%d,\"before\":", i, j);
                                ev_canon(rv->type, rv->size, rv->last);
                                ev_printf(",\"after\":");
                                ev_canon(rv->type, rv->size, rv->orig->data);
                                ev_printf("}");
                                cpy(rv->last, rv->orig->data, rv->size);
                        }
                }
}

static void end_call(long ret, int is_svc)
{
        if (--in_call > 0) {
                ev_nest_pop();
                ev_printf("],\"ret\":%ld}", ret);
                return;
        }
        diff_mem();
        if (is_svc) {
                size_t cmd_half = (usize >= 0) ? bufsize : (bufsize >> 1);
                if (half_cmd_idle && memcmp(half_copy, buf, cmd_half) != 0) { ev_begin(); ev_printf("{\"k\":\"half\",\"which\":\"cmd\"}"); }
                if (half_ev_idle) {
                        int ch = (usize >= 0) ? memcmp(half_copy + bufsize, ubuf, (size_t)usize) : memcmp(half_copy + cmd_half, buf + cmd_half, bufsize - cmd_half);
                        if (ch != 0) { ev_begin(); ev_printf("{\"k\":\"half\",\"which\":\"ev\"}"); }
                }
        }
        fprintf(bodyf, "{\"e\":\"api\",\"f\":\"%s\",\"a\":[%s],\"ev\":[%s],\"ret\":%ld", call_name, call_args, evlen ? evbuf : "", ret);
        if (omx) {
                int sau = call_unlock_seen ? snap_same(snap_unlock) : 1;
                int unch = snap_same(snap_entry);
                fprintf(bodyf, ",\"mx\":{\"sau\":%s,\"unch\":%s}", sau ? "true" : "false", unch ? "true" : "false");
        }
        if (!fill_flag && (is_svc || call_name[0] == 't' || call_name[0] == 'h')) print_state(bodyf);
        fprintf(bodyf, "}\n");
        for (int k = 0; k < ndeferred; k++) emit_setmem(deferred[k][0], deferred[k][1], 0);
        ndeferred = 0;
}

static void put_name(FILE *f, const char *s)
{
        if (s == NULL) { fprintf(f, "[]"); return; }
        fprintf(f, "[");
        for (size_t i = 0; s[i]; i++) fprintf(f, i ? ",%u" : "%u", (uint8_t)s[i]);
        fprintf(f, "]");
}

static void end_scenario(void)
{
        if (!scenario_open) return;
        scenario_open = 0;
        fclose(bodyf); bodyf = NULL;
        if (out && !unsupported) {
                fprintf(out, "{\"e\":\"cfg\",\"sid\":%ld,\"qcap\":%d,\"acap\":%zu,\"ucap\":%zu,\"shared\":%s,\"mutex\":%s,\"step\":%s,\"fill\":%d,\"ntab\":%d,\"groups\":[",
                        sid, (int)CAT_UNSOLICITED_CMD_BUFFER_SIZE, acap, ucap, usize < 0 ? "true" : "false", omx ? "true" : "false", STEP_GRAIN, fill_flag, ntab);
                for (int g = 0; g < ngroups; g++) {
                        fprintf(out, "%s{\"disable\":%s,\"hasname\":%s,\"name\":", g ? "," : "", ginit[g] ? "true" : "false", odesc->cmd_group[g]->name ? "true" : "false");
                        put_name(out, odesc->cmd_group[g]->name);
                        fprintf(out, "}");
                }
                fprintf(out, "],\"cmds\":[");
                for (int i = 0; i < ncmds; i++) {
                        const struct cat_command *o = cmds[i].orig;
                        fprintf(out, "%s{\"name\":", i ? "," : ""); put_name(out, o->name);
                        fprintf(out, ",\"group\":%d,\"hw\":%s,\"hr\":%s,\"hx\":%s,\"ht\":%s,\"need_all\":%s,\"only_test\":%s,\"disable\":%s,\"implicit\":%s,",
                                cmds[i].group, o->write ? "true" : "false", o->read ? "true" : "false", o->run ? "true" : "false", o->test ? "true" : "false",
                                o->need_all_vars ? "true" : "false", cmds[i].init_only_test ? "true" : "false", cmds[i].init_disable ? "true" : "false", o->implicit_write ? "true" : "false");
                        fprintf(out, "\"hasdesc\":%s,\"desc\":", o->description ? "true" : "false"); put_name(out, o->description);
                        fprintf(out, ",\"vars\":[");
                        for (int j = 0; j < cmds[i].nvars; j++) {
                                const struct cat_variable *v = cmds[i].vars[j].orig;
                                fprintf(out, "%s{\"type\":%d,\"size\":%zu,\"acc\":%d,\"hasname\":%s,\"name\":", j ? "," : "", (int)v->type, v->data_size, (int)v->access, v->name ? "true" : "false");
                                put_name(out, v->name);
                                fprintf(out, ",\"vr\":%s,\"vw\":%s,\"mem\":", v->read ? "true" : "false", v->write ? "true" : "false");
                                evlen = 0; ev_printf("%s", ""); ev_canon((int)v->type, v->data_size, cmds[i].init_mem[j]);
                                fprintf(out, "%s}", evbuf);
                        }
                        fprintf(out, "]}");
                }
                fprintf(out, "]}\n");
                fwrite(body, 1, body_len, out);
                fprintf(out, "{\"e\":\"end\",\"sid\":%ld,\"inleft\":0}\n", sid);
                fflush(out);
        }
        free(body); body = NULL; body_len = 0;
}

/* ------------------------------------------------------------------ wrapped API */
static void at_exit(void) { end_scenario(); if (out) fclose(out); out = NULL; }

/* the program aborts (a failed assert of the test, a sanitizer report): what was recorded so far is still written */
static void on_abort(int sig)
{
        static int busy;
        if (!busy) { busy = 1; if (bodyf) fflush(bodyf); at_exit(); }
        signal(sig, SIG_DFL);
        raise(sig);
}
void __asan_on_error(void);
void __asan_on_error(void) { static int busy; if (!busy) { busy = 1; if (bodyf) fflush(bodyf); at_exit(); } }

static void free_tables(void)
{
        for (int i = 0; i < ncmds; i++) {
                for (int j = 0; j < cmds[i].nvars; j++) { free(cmds[i].vars[j].last); free(cmds[i].init_mem[j]); }
                free(cmds[i].init_mem);
                if (cmds[i].nvars) free((void *)cmds[i].sh->var);
                if (i >= ntab) free(cmds[i].sh);
        }
        for (int g = 0; g < ngroups; g++) { free((void *)sgroups[g]->cmd); free(sgroups[g]); }
        free(sgroup_ptrs); sgroup_ptrs = NULL;
        ncmds = ntab = ngroups = 0;
        free(snap_entry); free(snap_unlock); free(half_copy); snap_entry = snap_unlock = half_copy = NULL;
}

void __wrap_cat_init(struct cat_object *self, const struct cat_descriptor *desc, const struct cat_io_interface *io, const struct cat_mutex_interface *mutex)
{
        static int once;
        if (!once) {
                once = 1;
                const char *p = getenv("CATREC_OUT");
                if (p) out = fopen(p, "a");
                atexit(at_exit);
                signal(SIGABRT, on_abort); signal(SIGSEGV, on_abort); signal(SIGALRM, on_abort);
                { const char *t = getenv("CATREC_TIMEOUT"); if (t) alarm((unsigned)atoi(t)); }
                const char *s0 = getenv("CATREC_SID");
                sid = s0 ? atol(s0) : 0;
        }
        end_scenario();
        free_tables();
        fill_flag = 0;
        for (size_t i = 0; i < sizeof *self; i++) if (((const uint8_t *)self)[i] != 0) fill_flag = 1;
        at = self; odesc = desc; oio = io; omx = mutex;
        unsupported = 0; in_call = 0; ev_sp = 0; in_off = 0; lock_n = unlock_n = 0;
        sid++;
        ngroups = (int)desc->cmd_group_num;
        if (ngroups > MAXG) die("too many groups");
        sgroup_ptrs = calloc((size_t)ngroups, sizeof *sgroup_ptrs);
        for (int g = 0; g < ngroups; g++) {
                const struct cat_command_group *og = desc->cmd_group[g];
                struct cat_command *arr = calloc(og->cmd_num ? og->cmd_num : 1, sizeof *arr);
                sgroups[g] = calloc(1, sizeof *sgroups[g]);
                *sgroups[g] = *og; sgroups[g]->cmd = arr;
                gdisable[g] = ginit[g] = og->disable;
                sgroup_ptrs[g] = sgroups[g];
                for (size_t k = 0; k < og->cmd_num; k++) {
                        if (ncmds >= MAXC) die("too many commands");
                        shadow_cmd(&cmds[ncmds], &og->cmd[k], &arr[k], g);
                        ncmds++;
                }
        }
        ntab = ncmds;
        sdesc = *desc; sdesc.cmd_group = sgroup_ptrs;
        buf = desc->buf; bufsize = desc->buf_size;
        if (desc->unsolicited_buf != NULL && desc->unsolicited_buf_size > 0) { ubuf = desc->unsolicited_buf; usize = (long)desc->unsolicited_buf_size; acap = bufsize; ucap = (size_t)usize; }
        else { usize = -1; acap = bufsize >> 1; ucap = bufsize >> 1; ubuf = buf + (bufsize >> 1); }
        sio.read = t_ioread; sio.write = t_iowrite;
        smx.lock = t_lock; smx.unlock = t_unlock;
        snap_size = snap_total();
        snap_entry = malloc(snap_size + 1); snap_unlock = malloc(snap_size + 1);
        half_copy = malloc(bufsize + (usize >= 0 ? (size_t)usize : 0) + 1);
        body = NULL; body_len = 0; bodyf = open_memstream(&body, &body_len);
        scenario_open = 1;
        __real_cat_init(self, &sdesc, &sio, mutex ? &smx : NULL);
}

cat_status __wrap_cat_service(struct cat_object *self)
{
        if (self != at) return __real_cat_service(self);
        begin_call("svc", "");
        cat_status r = __real_cat_service(self);
        end_call((long)r, 1);
        return r;
}

#define SIMPLE(fn, recname) \
cat_status __wrap_##fn(struct cat_object *self) \
{ \
        if (self != at) return __real_##fn(self); \
        begin_call(recname, ""); \
        cat_status r = __real_##fn(self); \
        end_call((long)r, 0); \
        return r; \
}
SIMPLE(cat_is_busy, "is_busy")
SIMPLE(cat_is_hold, "is_hold")
SIMPLE(cat_is_unsolicited_buffer_full, "is_full")

static cat_status trig(struct cat_object *self, struct cat_command const *cmd, int t, int which)
{
        const struct cat_command *s = to_shadow(cmd);
        char args[64];
        snprintf(args, sizeof args, "%d,%d", idx_sh(s), t);
        begin_call("trigger", args);
        cat_status r = which == 0 ? __real_cat_trigger_unsolicited_event(self, s, (cat_cmd_type)t)
                     : which == 1 ? __real_cat_trigger_unsolicited_read(self, s) : __real_cat_trigger_unsolicited_test(self, s);
        end_call((long)r, 0);
        return r;
}

cat_status __wrap_cat_trigger_unsolicited_event(struct cat_object *self, struct cat_command const *cmd, cat_cmd_type type)
{
        if (self != at) return __real_cat_trigger_unsolicited_event(self, cmd, type);
        return trig(self, cmd, (int)type, 0);
}

cat_status __wrap_cat_trigger_unsolicited_read(struct cat_object *self, struct cat_command const *cmd)
{
        if (self != at) return __real_cat_trigger_unsolicited_read(self, cmd);
        return trig(self, cmd, (int)CAT_CMD_TYPE_READ, 1);
}

cat_status __wrap_cat_trigger_unsolicited_test(struct cat_object *self, struct cat_command const *cmd)
{
        if (self != at) return __real_cat_trigger_unsolicited_test(self, cmd);
        return trig(self, cmd, (int)CAT_CMD_TYPE_TEST, 2);
}

cat_status __wrap_cat_hold_exit(struct cat_object *self, cat_status status)
{
        if (self != at) return __real_cat_hold_exit(self, status);
        char args[32];
        snprintf(args, sizeof args, "%d", (int)status);
        begin_call("hold_exit", args);
        cat_status r = __real_cat_hold_exit(self, status);
        end_call((long)r, 0);
        return r;
}

cat_status __wrap_cat_is_unsolicited_event_buffered(struct cat_object *self, struct cat_command const *cmd, cat_cmd_type type)
{
        if (self != at) return __real_cat_is_unsolicited_event_buffered(self, cmd, type);
        const struct cat_command *s = to_shadow(cmd);
        char args[64];
        snprintf(args, sizeof args, "%d,%d", idx_sh(s), (int)type);
        begin_call("is_buffered", args);
        cat_status r = __real_cat_is_unsolicited_event_buffered(self, s, type);
        end_call((long)r, 0);
        return r;
}

struct cat_command const *__wrap_cat_get_processed_command(struct cat_object *self, cat_fsm_type fsm)
{
        if (self != at) return __real_cat_get_processed_command(self, fsm);
        char args[32];
        snprintf(args, sizeof args, "%d", (int)fsm);
        begin_call("processed", args);
        const struct cat_command *s = __real_cat_get_processed_command(self, fsm);
        int i = idx_sh(s);
        end_call((long)i, 0);
        return i >= 0 ? cmds[i].orig : NULL;
}

static void name_args(char *dst, size_t n, int c, const char *name)
{
        size_t o = 0;
        dst[0] = 0;
        if (c >= 0) o += (size_t)snprintf(dst + o, n - o, "%d%s", c, name[0] ? "," : "");
        for (size_t i = 0; name[i] && o + 8 < n; i++) o += (size_t)snprintf(dst + o, n - o, i ? ",%u" : "%u", (uint8_t)name[i]);
        if (strlen(name) * 4 + 16 > n) unsupported = 1;
}

struct cat_command const *__wrap_cat_search_command_by_name(struct cat_object *self, const char *name)
{
        if (self != at) return __real_cat_search_command_by_name(self, name);
        char args[160];
        name_args(args, sizeof args, -1, name);
        begin_call("search_cmd", args);
        const struct cat_command *s = __real_cat_search_command_by_name(self, name);
        int i = idx_sh(s);
        end_call((long)i, 0);
        return i >= 0 ? cmds[i].orig : NULL;
}

struct cat_command_group const *__wrap_cat_search_command_group_by_name(struct cat_object *self, const char *name)
{
        if (self != at) return __real_cat_search_command_group_by_name(self, name);
        char args[160];
        name_args(args, sizeof args, -1, name);
        begin_call("search_grp", args);
        const struct cat_command_group *g = __real_cat_search_command_group_by_name(self, name);
        long r = -1;
        for (int i = 0; i < ngroups; i++) if (sgroups[i] == g) r = i;
        end_call(r, 0);
        return r >= 0 ? odesc->cmd_group[r] : NULL;
}

struct cat_variable const *__wrap_cat_search_variable_by_name(struct cat_object *self, struct cat_command const *cmd, const char *name)
{
        if (self != at) return __real_cat_search_variable_by_name(self, cmd, name);
        const struct cat_command *s = to_shadow(cmd);
        int c = idx_sh(s);
        char args[160];
        name_args(args, sizeof args, c, name);
        begin_call("search_var", args);
        const struct cat_variable *v = __real_cat_search_variable_by_name(self, s, name);
        int vi = -1;
        if (v) var_sh(v, NULL, &vi);
        end_call((long)vi, 0);
        return vi >= 0 ? cmds[c].vars[vi].orig : NULL;
}
