----------------------------- MODULE CatThreads -----------------------------
(***************************************************************************)
(* C17: producer threads calling cat_trigger_unsolicited_event while one   *)
(* thread runs cat_service, all through the mutex interface.  Every API    *)
(* call is  Acquire ; Body ; Release  with Body the ring operation of      *)
(* CatImpl (Push / Pop), Acquire enabled only while the lock is free.      *)
(* With Racy = TRUE the trigger body is split into an unlocked read and an *)
(* unlocked write of the ring - the model must then violate ExactlyOnce    *)
(* (vacuity check: the model is able to see a lost update).                *)
(***************************************************************************)
EXTENDS CatImpl

CONSTANTS NProd,       \* number of producer threads (producer p owns command p-1)
          QCap,        \* ring capacity
          Budget,      \* triggers per producer
          Racy         \* BOOLEAN

Prod == 1..NProd
SVC == 0
MtCfg == [sid |-> 0, qcap |-> QCap, acap |-> 8, ucap |-> 8, mutex |-> TRUE, groups |-> <<[disable |-> FALSE]>>,
          cmds |-> [p \in Prod |-> [name |-> <<80, 48 + p>>, group |-> 0, hw |-> FALSE, hr |-> TRUE, hx |-> FALSE, ht |-> FALSE, need_all |-> FALSE,
                                    only_test |-> FALSE, disable |-> FALSE, implicit |-> FALSE, hasdesc |-> FALSE, desc |-> <<>>, vars |-> <<>>]]]

VARIABLES R,          \* the ring part of the parser object (a CatImpl record)
          lock,       \* -1 free, else the thread holding it
          pc,         \* per thread: "out" | "in" (between Acquire and Release) | "r1" (racy: has read the ring, not yet written)
          tmp,        \* racy variant: the count / tail a producer read outside the lock
          left, accepted, refused, delivered, inprog

vars == <<R, lock, pc, tmp, left, accepted, refused, delivered, inprog>>

Init == /\ R = InitS(MtCfg) /\ lock = -1
        /\ pc = [t \in Prod \cup {SVC} |-> "out"] /\ tmp = [p \in Prod |-> <<0, 0>>]
        /\ left = [p \in Prod |-> Budget] /\ accepted = [p \in Prod |-> 0] /\ refused = [p \in Prod |-> 0]
        /\ delivered = [p \in Prod |-> 0] /\ inprog = 0

Acquire(t) == /\ pc[t] = "out" /\ lock = -1 /\ (t \in Prod => left[t] > 0)
              /\ lock' = t /\ pc' = [pc EXCEPT ![t] = "in"]
              /\ UNCHANGED <<R, tmp, left, accepted, refused, delivered, inprog>>
Release(t) == /\ pc[t] = "done" /\ lock = t /\ lock' = -1 /\ pc' = [pc EXCEPT ![t] = "out"]
              /\ UNCHANGED <<R, tmp, left, accepted, refused, delivered, inprog>>

\* cat_trigger_unsolicited_event under the lock
TriggerBody(p) ==
  /\ pc[p] = "in" /\ lock = p
  /\ IF RingFull(MtCfg, R) THEN /\ refused' = [refused EXCEPT ![p] = @ + 1] /\ UNCHANGED <<R, accepted>>
     ELSE /\ R' = Push(MtCfg, R, p - 1, CT_READ) /\ accepted' = [accepted EXCEPT ![p] = @ + 1] /\ UNCHANGED refused
  /\ left' = [left EXCEPT ![p] = @ - 1] /\ pc' = [pc EXCEPT ![p] = "done"]
  /\ UNCHANGED <<lock, tmp, delivered, inprog>>

\* one step of the event machine inside cat_service: pop when idle, deliver when in progress
SvcThreadBody ==
  /\ pc[SVC] = "in" /\ lock = SVC
  /\ IF inprog # 0 THEN /\ delivered' = [delivered EXCEPT ![inprog] = @ + 1] /\ inprog' = 0 /\ UNCHANGED R
     ELSE IF R.cnt > 0 THEN /\ inprog' = R.ring[R.head + 1][1] + 1 /\ R' = Pop(MtCfg, R) /\ UNCHANGED delivered
     ELSE UNCHANGED <<R, delivered, inprog>>
  /\ pc' = [pc EXCEPT ![SVC] = "done"]
  /\ UNCHANGED <<lock, tmp, left, accepted, refused>>

\* the racy trigger: reads and writes the ring without taking the lock
RacyRead(p) == /\ Racy /\ pc[p] = "out" /\ left[p] > 0
               /\ tmp' = [tmp EXCEPT ![p] = <<R.cnt, R.tail>>] /\ pc' = [pc EXCEPT ![p] = "r1"]
               /\ UNCHANGED <<R, lock, left, accepted, refused, delivered, inprog>>
RacyWrite(p) == /\ Racy /\ pc[p] = "r1"
                /\ IF tmp[p][1] = QCap THEN /\ refused' = [refused EXCEPT ![p] = @ + 1] /\ UNCHANGED <<R, accepted>>
                   ELSE /\ R' = [R EXCEPT !.ring[tmp[p][2] + 1] = <<p - 1, CT_READ>>, !.tail = (tmp[p][2] + 1) % QCap, !.cnt = tmp[p][1] + 1]
                        /\ accepted' = [accepted EXCEPT ![p] = @ + 1] /\ UNCHANGED refused
                /\ left' = [left EXCEPT ![p] = @ - 1] /\ pc' = [pc EXCEPT ![p] = "out"]
                /\ UNCHANGED <<lock, tmp, delivered, inprog>>

Next == \/ \E t \in Prod \cup {SVC} : Acquire(t) \/ Release(t)
        \/ \E p \in Prod : (~Racy /\ TriggerBody(p)) \/ RacyRead(p) \/ RacyWrite(p)
        \/ SvcThreadBody

Spec == Init /\ [][Next]_vars

\* ---- properties
NeverMoreThanAccepted == \A p \in Prod : delivered[p] + (IF inprog = p THEN 1 ELSE 0) <= accepted[p]
Queued(p) == Cardinality({i \in 1..R.cnt : RingSeq(MtCfg, R)[i][1] = p - 1})
\* every accepted trigger is either still queued, in progress, or delivered - nothing is lost, nothing duplicated
ExactlyOnce == \A p \in Prod : accepted[p] = delivered[p] + (IF inprog = p THEN 1 ELSE 0) + Queued(p)
RingOk == R.cnt \in 0..QCap /\ R.tail = (R.head + R.cnt) % QCap
MutualExclusion == Cardinality({t \in Prod \cup {SVC} : pc[t] \in {"in", "done"}}) <= 1
=============================================================================
