------------------------------ MODULE MC_Args ------------------------------
EXTENDS MCBase


(* Argument texts over a small alphabet for numeric, string and hex-buffer variables with the three access modes: C04 C05 C08. *)
I8(acc) == MkVarCb(VT_INT, 1, acc, <<53>>, FALSE, TRUE)
STR3(acc) == MkVar(VT_STRING, 3, acc, <<97, 0, 0>>)
HB2(acc) == MkVar(VT_BUFHEX, 2, acc, <<1, 2>>)
H16(acc) == MkVar(VT_HEX, 2, acc, <<48, 48, 70, 70>>)
TA(v1, v2, na) == MkCfg(<<[MkCmd(N_A, TRUE, TRUE, FALSE, FALSE, <<v1, v2>>) EXCEPT !.need_all = na]>>, 10, 10, 1, FALSE)
MCTables == {TA(I8(ACC_RW), STR3(ACC_RW), FALSE), TA(HB2(ACC_RW), I8(ACC_RO), TRUE), TA(STR3(ACC_RO), H16(ACC_WO), FALSE), TA(H16(ACC_RW), HB2(ACC_WO), FALSE)}
MCTablesQ == {TA(I8(ACC_RW), STR3(ACC_RW), FALSE), TA(HB2(ACC_RW), I8(ACC_RO), TRUE)}
MCBytes == {49, 57, 45, 44, 34, 92, 97, 48, 120, 10}
MCCodes == {RET_OK}
MCPrefix == <<65, 84, 65, 61>>

=============================================================================
