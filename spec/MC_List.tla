------------------------------ MODULE MC_List ------------------------------
EXTENDS MCBase


(* Command list and TEST responses for small tables at capacities around the text length: C19. *)
N_L == <<76>>
LST == MkCmd(N_L, FALSE, FALSE, TRUE, TRUE, <<>>)
G2(d) == <<[disable |-> FALSE], [disable |-> d]>>
TL(cap, d, dis, ot) == MkCfgG(<<LST, [MkCmd(N_AB, TRUE, FALSE, TRUE, FALSE, <<U8(D5)>>) EXCEPT !.group = 1, !.disable = dis],
                                [MkCmd(N_B, FALSE, TRUE, FALSE, TRUE, <<>>) EXCEPT !.group = 1, !.only_test = ot, !.hasdesc = TRUE, !.desc = <<100>>]>>, G2(d), cap, cap, 1, FALSE)
MCTables == {TL(cap, d, dis, ot) : cap \in {6, 7, 8, 20}, d \in BOOLEAN, dis \in BOOLEAN, ot \in BOOLEAN}
MCTablesQ == {TL(cap, d, dis, FALSE) : cap \in {7, 20}, d \in BOOLEAN, dis \in BOOLEAN}
MCPrefix == <<65, 84>>
MCBytes == {65, 84, 76, 66, 61, 63, 10}
MCCodes == {RET_LIST, RET_DATA_OK}
MCTrigs == {<<1, CT_TEST>>, <<2, CT_TEST>>}

=============================================================================
