SPECIFICATION Spec
CONSTANTS
  Alphabet = {48, 97, 70, 103, 34, 92, 110, 120}
  MaxLen = 6
  Mode = "buf"
INVARIANT Agree
INVARIANT RoundTrip
CHECK_DEADLOCK FALSE
