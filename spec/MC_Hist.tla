------------------------------- MODULE MC_Hist -------------------------------
(* MC_Line plus HavocScratch at line boundaries: the answer to a line does not depend on leftovers of earlier lines (C20). *)
EXTENDS MC_Line
MCBytesH == {65, 84, 66, 61, 63, 13, 10}
MCTablesH == {T1, T2, T3, T4, T5}
=============================================================================
