SPECIFICATION Spec
CONSTANTS
  Tables <- MCTables
  Bytes <- MCBytes
  MaxBytes = 8
  MaxLines = 2
  Codes <- MCCodes
  VarRets = {0}
  WrChoices = {TRUE}
  RdNone = TRUE
  Trigs <- MCTrigs
  MaxTrig = 1
  HxSet <- HxBoth
  MaxHx = 2
  Queries = TRUE
  LockRets = {0}
  MaxLockFail = 0
  Toggles = {}
  MaxToggle = 0
  Edits = FALSE
  Prefix <- MCPrefix
  MaxHavoc = 0
  KeepRec = TRUE
  NestedTrigs = {}
  NestedHx = {}
  EvMayHold = FALSE
INVARIANT NoBad
INVARIANT Structural
ACTION_CONSTRAINT EdgeExport
VIEW EdgeView
CHECK_DEADLOCK FALSE
