SPECIFICATION Spec
CONSTANTS
  Tables <- MCTables
  Bytes <- MCBytes
  MaxBytes = 5
  MaxLines = 1
  Codes <- MCCodes
  VarRets = {0}
  WrChoices = {TRUE}
  RdNone = TRUE
  Trigs <- MCTrigs
  MaxTrig = 1
  HxSet = {0}
  MaxHx = 1
  Queries = TRUE
  LockRets = {0, 1}
  MaxLockFail = 1
  Toggles = {}
  MaxToggle = 0
  Edits = FALSE
  Prefix <- MCPrefix
  MaxHavoc = 0
  KeepRec = TRUE
  NestedTrigs = {}
  NestedHx = {}
  EvMayHold = FALSE
INVARIANT NoBad
INVARIANT Structural
ACTION_CONSTRAINT EdgeExport
VIEW EdgeView
CHECK_DEADLOCK FALSE
