------------------------------ MODULE MC_Sched ------------------------------
(* Every readiness schedule, triggers at any point, queries at any point: C11 C12 C13 C15 C18 (safety). *)
EXTENDS MCBase

N_C == <<67>>
N_U == <<85>>
N_V == <<86>>
\* C: read handler (multi-unit responses); U: event command with a variable and a read handler; V: event command that fails at once
TS(q) == MkCfg(<<MkCmd(N_C, FALSE, TRUE, TRUE, FALSE, <<>>), MkCmd(N_U, FALSE, TRUE, FALSE, FALSE, <<U8(D5)>>), MkCmd(N_V, FALSE, FALSE, FALSE, FALSE, <<>>)>>, 6, 6, q, FALSE)
MCTables == {TS(1), TS(2)}
MCTablesQ == {TS(1)}
MCBytes == {65, 84, 67, 63, 10}
MCCodes == {RET_DATA_OK, RET_DATA_NEXT, RET_OK, RET_ERROR}
MCTrigs == {<<1, CT_READ>>, <<2, CT_READ>>, <<1, CT_TEST>>}
MCNested == {<<1, CT_READ>>}
MCCodesLive == {RET_DATA_OK, RET_OK, RET_ERROR}
=============================================================================
