------------------------------ MODULE MC_Codes ------------------------------
EXTENDS MCBase


(* Every return code at every handler invocation, both machines, variable callbacks failing: C10. *)
VCB == MkVarCb(VT_UINT, 1, ACC_RW, D5, TRUE, TRUE)
TC == MkCfg(<<MkCmd(N_A, TRUE, TRUE, TRUE, TRUE, <<VCB>>)>>, 8, 8, 1, FALSE)
MCTables == {TC}
MCBytes == {65, 84, 61, 63, 49, 10}
MCCodes == {RET_ERROR, RET_DATA_OK, RET_DATA_NEXT, RET_NEXT, RET_OK, RET_HOLD, RET_HOLD_EXIT_OK, RET_HOLD_EXIT_ERROR, RET_LIST, -2, 9}
MCTrigs == {<<0, CT_READ>>, <<0, CT_TEST>>}
MCPrefix == <<65, 84, 65>>

=============================================================================
