-------------------------- MODULE CatThreadsTrace --------------------------
(***************************************************************************)
(* Trace validation for C17.  harness/catmt.c records every critical       *)
(* section (lock .. unlock) of the real library under real threads, in     *)
(* lock order, with the shared-state accesses reported by the              *)
(* CAT_VERIF_TOUCH hook and the call's return value.  Ordered by lock      *)
(* sequence number the sections must be a legal sequential behaviour of    *)
(* the ring of CatThreads: a trigger is accepted iff fewer than QCap       *)
(* events wait; every delivery is of an accepted, not yet delivered event; *)
(* at the end accepted = delivered per producer; no shared state was       *)
(* touched by a thread that did not hold the lock.                         *)
(***************************************************************************)
EXTENDS Integers, Sequences, FiniteSets, TLC, Json, IOUtils

TraceFile == IF "CAT_TRACE" \in DOMAIN IOEnv THEN IOEnv.CAT_TRACE ELSE "mt.ndjson"
ResultFile == IF "CAT_RESULT" \in DOMAIN IOEnv THEN IOEnv.CAT_RESULT ELSE "result.json"
TraceLog == ndJsonDeserialize(TraceFile)

VARIABLES l, qcap, cnt, acc, del, bad, nsec, ntrig

vars == <<l, qcap, cnt, acc, del, bad, nsec, ntrig>>

Init == l = 1 /\ qcap = 1 /\ cnt = 0 /\ acc = [p \in 0..7 |-> 0] /\ del = [p \in 0..7 |-> 0] /\ bad = <<>> /\ nsec = 0 /\ ntrig = 0

Note(why, rec) == IF Len(bad) < 10 THEN Append(bad, [p |-> "C17", why |-> why, at |-> l, seq |-> IF "seq" \in DOMAIN rec THEN rec.seq ELSE -1]) ELSE bad
Has(seq, x) == \E i \in 1..Len(seq) : seq[i] = x
Count(seq, x) == Cardinality({i \in 1..Len(seq) : seq[i] = x})

RECURSIVE AddAll(_, _)
AddAll(f, cs) == IF cs = <<>> THEN f ELSE AddAll([f EXCEPT ![Head(cs)] = @ + 1], Tail(cs))

Step(rec) ==
  IF rec.e = "mtcfg" THEN /\ qcap' = rec.qcap /\ cnt' = 0 /\ acc' = [p \in 0..7 |-> 0] /\ del' = [p \in 0..7 |-> 0] /\ UNCHANGED <<bad, nsec, ntrig>>
  ELSE IF rec.e = "sec" THEN
     /\ nsec' = nsec + 1 /\ UNCHANGED qcap
     /\ IF rec.api = "trigger" THEN
           /\ ntrig' = ntrig + 1 /\ UNCHANGED del
           /\ IF rec.ret = 0 THEN
                 /\ bad' = IF cnt >= qcap THEN Note("trigger accepted although the queue was full at its critical section", rec)
                           ELSE IF ~Has(rec.touch, 1) THEN Note("accepted trigger did not write the queue inside its critical section", rec) ELSE bad
                 /\ cnt' = cnt + 1 /\ acc' = [acc EXCEPT ![rec.c] = @ + 1]
              ELSE IF rec.ret = -5 THEN
                 /\ bad' = IF cnt < qcap THEN Note("trigger refused although the queue had room at its critical section", rec)
                           ELSE IF Has(rec.touch, 1) THEN Note("refused trigger wrote the queue", rec) ELSE bad
                 /\ UNCHANGED <<cnt, acc>>
              ELSE /\ bad' = Note("trigger returned an unexpected status", rec) /\ UNCHANGED <<cnt, acc>>
        ELSE IF rec.api = "svc" THEN
           LET pops == Count(rec.touch, 2)
               del1 == AddAll(del, rec.deliv)
           IN /\ cnt' = cnt - pops /\ del' = del1 /\ UNCHANGED <<acc, ntrig>>
              /\ bad' = IF pops > cnt THEN Note("event popped from an empty queue", rec)
                        ELSE IF \E p \in 0..7 : del1[p] > acc[p] THEN Note("event delivered more often than it was accepted", rec) ELSE bad
        ELSE IF rec.api = "is_full" THEN
           /\ bad' = IF rec.ret = 0 /\ cnt >= qcap THEN Note("is_full says room, the queue was full", rec)
                     ELSE IF rec.ret = -5 /\ cnt < qcap THEN Note("is_full says full, the queue had room", rec) ELSE bad
           /\ UNCHANGED <<cnt, acc, del, ntrig>>
        ELSE UNCHANGED <<cnt, acc, del, bad, ntrig>>
  ELSE IF rec.e = "mtend" THEN
     /\ bad' = IF rec.unowned > 0 THEN Note(<<"shared state touched by a thread that does not hold the lock", rec.unowned_api, rec.unowned_what>>, rec)
               ELSE IF rec.truncated THEN bad
               ELSE IF \E i \in 1..Len(rec.accepted) : rec.accepted[i] # rec.delivered[i] THEN Note(<<"accepted and delivered triggers differ", rec.accepted, rec.delivered>>, rec)
               ELSE IF \E i \in 1..Len(rec.accepted) : rec.accepted[i] # acc[i - 1] THEN Note(<<"the producers' own counts differ from the critical-section log", rec.accepted>>, rec)
               ELSE bad
     /\ UNCHANGED <<qcap, cnt, acc, del, nsec, ntrig>>
  ELSE UNCHANGED <<qcap, cnt, acc, del, bad, nsec, ntrig>>

Next == /\ l <= Len(TraceLog) /\ l' = l + 1 /\ Step(TraceLog[l])
Spec == Init /\ [][Next]_vars
Done == l = Len(TraceLog) + 1 => JsonSerialize(ResultFile, [bad |-> bad, sections |-> nsec, triggers |-> ntrig])
=============================================================================
