------------------------------ MODULE CatImpl ------------------------------
(***************************************************************************)
(* Implementation-shaped specification of cAT (src/cat.c).                 *)
(*                                                                         *)
(* Functional style: the parser object is one record S; every C function   *)
(* is an operator from a context X = [s, mem, cfg, obs, ans] to a new      *)
(* context.  `ans' is the list of answers the environment gives to the     *)
(* external calls of this API call (io read / io write / handlers /        *)
(* variable callbacks / lock / unlock), in call order; `obs' accumulates   *)
(* the observable events.  cat_service is literally                        *)
(*     Lock ; EvStep ; CmdStep ; Merge ; Unlock.                           *)
(* Numeric codes are those of the C enums, so that a projection of S can   *)
(* be compared with what the harness reads from the public struct.         *)
(***************************************************************************)
EXTENDS CatText, TLC

\* ---- enum codes (cat.h)
ST_ERROR == -1        ST_IDLE == 0          ST_PREFIX == 1        ST_NAME == 2
ST_UPDATE == 3        ST_WAIT_READ == 4     ST_SEARCH == 5        ST_FOUND == 6
ST_NOT_FOUND == 7     ST_ARGS == 8          ST_PARSE_WRITE == 9   ST_FORMAT_READ == 10
ST_WAIT_TEST == 11    ST_FORMAT_TEST == 12  ST_WRITE_LOOP == 13   ST_READ_LOOP == 14
ST_TEST_LOOP == 15    ST_RUN_LOOP == 16     ST_HOLD == 17         ST_FLUSH_WAIT == 18
ST_FLUSH == 19        ST_AF_RESET == 20     ST_AF_OK == 21        ST_AF_READ == 22
ST_AF_TEST == 23      ST_PRINT_CMD == 24

US_IDLE == 0          US_FORMAT_READ == 1   US_FORMAT_TEST == 2   US_READ_LOOP == 3
US_TEST_LOOP == 4     US_FLUSH_WAIT == 5    US_FLUSH == 6         US_AF_RESET == 7
US_AF_OK == 8         US_AF_READ == 9       US_AF_TEST == 10

CT_NONE == -1  CT_RUN == 0  CT_READ == 1  CT_WRITE == 2  CT_TEST == 3  CT_TOTAL == 4

RET_ERROR == -1  RET_DATA_OK == 0  RET_DATA_NEXT == 1  RET_NEXT == 2  RET_OK == 3
RET_HOLD == 4    RET_HOLD_EXIT_OK == 5  RET_HOLD_EXIT_ERROR == 6  RET_LIST == 7

S_OK == 0  S_BUSY == 1  S_HOLD == 2  S_ERROR == -1  S_MUTEX_UNLOCK == -2  S_MUTEX_LOCK == -3
S_UNKNOWN == -4  S_FULL == -5  S_NOT_HOLD == -6  S_EMPTY == -7

VT_INT == 0  VT_UINT == 1  VT_HEX == 2  VT_BUFHEX == 3  VT_STRING == 4
ACC_RW == 0  ACC_RO == 1  ACC_WO == 2

WB_NONE == -1  WB_CRLF == 0  WB_LF == 1  WB_CMD == 2  WB_EV == 3
WPH_BEFORE == 0  WPH_MAIN == 1  WPH_AFTER == 2

\* ---- descriptor access (commands are numbered from 0 as in the traces)
\* commands of the registered table.  A recorded configuration may carry further command descriptors after them ("ntab" given):
\* commands that are not registered but are passed to cat_trigger_unsolicited_event (the API accepts any descriptor)
NCmds(cfg) == IF "ntab" \in DOMAIN cfg THEN cfg.ntab ELSE Len(cfg.cmds)
CmdOf(cfg, c) == cfg.cmds[c + 1]
NVars(cfg, c) == Len(CmdOf(cfg, c).vars)
VarOf(cfg, c, i) == CmdOf(cfg, c).vars[i + 1]
Disabled(cfg, c) == cfg.groups[CmdOf(cfg, c).group + 1].disable \/ CmdOf(cfg, c).disable
RECURSIVE VarBase(_, _)
VarBase(cfg, c) == IF c = 0 THEN 0 ELSE VarBase(cfg, c - 1) + NVars(cfg, c - 1)
AccessPossible(cfg, c, acc) == \E i \in 0..(NVars(cfg, c) - 1) : VarOf(cfg, c, i).acc \in {ACC_RW, acc}

\* ---- initial object (cat_init on zero-filled memory)
InitS(cfg) ==
  [s |-> ST_IDLE, us |-> US_IDLE, ch |-> 0, cr |-> FALSE, ct |-> CT_NONE, cmd |-> -1, var |-> -1,
   idx |-> 0, par |-> 0, len |-> 0, pos |-> 0, ws |-> 0, imp |-> FALSE, hold |-> FALSE, hx |-> 0,
   wb |-> WB_NONE, wph |-> 0, waf |-> 0,
   upos |-> 0, uidx |-> 0, ucmd |-> -1, uvar |-> -1, uct |-> CT_NONE, uwb |-> WB_NONE, uwph |-> 0, uwaf |-> 0,
   head |-> 0, tail |-> 0, cnt |-> 0, ring |-> [i \in 1..cfg.qcap |-> <<-1, 0>>],
   match |-> [i \in 1..NCmds(cfg) |-> 0], abuf |-> <<>>, ubuf |-> <<>>, inoff |-> 0]

InitMem(cfg) == [c \in 1..Len(cfg.cmds) |-> [i \in 1..Len(cfg.cmds[c].vars) |-> cfg.cmds[c].vars[i].mem]]

\* ---- context plumbing
Ctx(S, mem, cfg, ans) == [s |-> S, mem |-> mem, cfg |-> cfg, obs |-> <<>>, ans |-> ans]
NoAns == [k |-> "none"]
HeadAns(X) == IF X.ans = <<>> THEN NoAns ELSE Head(X.ans)
PopAns(X) == [X EXCEPT !.ans = IF X.ans = <<>> THEN <<>> ELSE Tail(X.ans)]
Emit(X, e) == [X EXCEPT !.obs = Append(X.obs, e)]
Mismatch(what, exp) == [k |-> "MISMATCH", what |-> what, exp |-> exp]

\* ---- buffers by machine ("c" command machine, "e" event machine)
Cap(cfg, f) == IF f = "c" THEN cfg.acap ELSE cfg.ucap
Pos(S, f) == IF f = "c" THEN S.pos ELSE S.upos
Buf(S, f) == IF f = "c" THEN S.abuf ELSE S.ubuf
CurCmd(S, f) == IF f = "c" THEN S.cmd ELSE S.ucmd
CurVarIx(S, f) == IF f = "c" THEN S.idx ELSE S.uidx
SetPB(S, f, p, b) == IF f = "c" THEN [S EXCEPT !.pos = p, !.abuf = b] ELSE [S EXCEPT !.upos = p, !.ubuf = b]
SetPos(S, f, p) == IF f = "c" THEN [S EXCEPT !.pos = p] ELSE [S EXCEPT !.upos = p]
FsmName(f) == IF f = "c" THEN "cmd" ELSE "ev"

NLText(S) == IF S.cr THEN <<CR, LF>> ELSE <<LF>>
NLCode(S) == IF S.cr THEN WB_CRLF ELSE WB_LF

\* print_nstring_to_buf: fails (nothing changes) when the text plus NUL does not fit
CanPrint(cfg, S, f, t) == Len(t) < Cap(cfg, f) - Pos(S, f)
PrintOne(S, f, t) == SetPB(S, f, Pos(S, f) + Len(t), Take(Buf(S, f), Pos(S, f)) \o t)
\* a sequence of prints, stopping at the first that does not fit: [s, ok]
RECURSIVE PrintAll(_, _, _, _)
PrintAll(cfg, S, f, ts) ==
  IF ts = <<>> THEN [s |-> S, ok |-> TRUE]
  ELSE IF ~CanPrint(cfg, S, f, Head(ts)) THEN [s |-> S, ok |-> FALSE]
  ELSE PrintAll(cfg, PrintOne(S, f, Head(ts)), f, Tail(ts))

\* ---- flush engines
StartFlush(S, after) == [S EXCEPT !.pos = 0, !.wb = NLCode(S), !.wph = WPH_BEFORE, !.waf = after, !.s = ST_FLUSH_WAIT]
UStartFlush(S, after) == [S EXCEPT !.upos = 0, !.uwb = NLCode(S), !.uwph = WPH_BEFORE, !.uwaf = after, !.us = US_FLUSH_WAIT]
StartFlushRaw(S, after) == [S EXCEPT !.pos = 0, !.wb = WB_CMD, !.wph = WPH_AFTER, !.waf = after, !.s = ST_FLUSH_WAIT]
AckText(S, t) == StartFlush([S EXCEPT !.abuf = t], ST_AF_RESET)
AckOk(S) == AckText(S, T_OK)
AckError(S) == AckText(S, T_ERROR)
UReset(S) == [S EXCEPT !.ucmd = -1, !.uct = CT_NONE, !.us = US_IDLE]
ResetState(S) == IF ~S.hold THEN [S EXCEPT !.s = ST_IDLE, !.cr = FALSE, !.cmd = -1, !.ct = CT_NONE]
                 ELSE [S EXCEPT !.s = ST_HOLD, !.cmd = -1, !.ct = CT_NONE]
EndErr(S, f) == IF f = "c" THEN AckError(S) ELSE UReset(S)
EndOk(S, f) == IF f = "c" THEN AckOk(S) ELSE UReset(S)
SetSt(S, f, cst, ust) == IF f = "c" THEN [S EXCEPT !.s = cst] ELSE [S EXCEPT !.us = ust]

WbText(S, wb) == CASE wb = WB_CRLF -> <<CR, LF>> [] wb = WB_LF -> <<LF>>
                   [] wb = WB_CMD -> CStr(S.abuf) [] wb = WB_EV -> CStr(S.ubuf) [] OTHER -> <<>>

\* ---- hold
EnableHold(S) == [S EXCEPT !.s = ST_HOLD, !.hold = TRUE, !.hx = 0]
HoldExitS(S, status) == IF ~S.hold THEN S ELSE [S EXCEPT !.hx = IF status = S_OK THEN 1 ELSE -1]
HoldExitRet(S) == IF ~S.hold THEN S_NOT_HOLD ELSE S_OK

\* ---- ring
RingFull(cfg, S) == S.cnt = cfg.qcap
Push(cfg, S, c, t) == [S EXCEPT !.ring[S.tail + 1] = <<c, t>>,
                               !.tail = IF S.tail + 1 >= cfg.qcap THEN 0 ELSE S.tail + 1,
                               !.cnt = S.cnt + 1]
Pop(cfg, S) == [S EXCEPT !.head = IF S.head + 1 >= cfg.qcap THEN 0 ELSE S.head + 1, !.cnt = S.cnt - 1]
RingSeq(cfg, S) == [i \in 1..S.cnt |-> S.ring[((S.head + i - 1) % cfg.qcap) + 1]]
IsBuffered(cfg, S, c, t) ==
  IF (S.ucmd = c /\ (t = CT_NONE \/ S.uct = t))
     \/ \E i \in 1..S.cnt : LET it == RingSeq(cfg, S)[i] IN it[1] = c /\ (t = CT_NONE \/ it[2] = t)
  THEN S_BUSY ELSE S_OK

(***************************************************************************)
(* Simple API calls (everything except cat_service), with the mutex        *)
(* bracket.  evlog is the logged event list of the call: it supplies the   *)
(* lock / unlock results.  Result: [s, obs, ret].                          *)
(***************************************************************************)
IsBusyVal(S) == IF S.s # ST_IDLE \/ S.us # US_IDLE THEN S_BUSY ELSE S_OK
IsHoldVal(S) == IF S.hold THEN S_HOLD ELSE S_OK

ApiBody(cfg, S, f, a) ==
  CASE f = "trigger"   -> IF RingFull(cfg, S) THEN [s |-> S, ret |-> S_FULL] ELSE [s |-> Push(cfg, S, a[1], a[2]), ret |-> S_OK]
    [] f = "hold_exit" -> [s |-> HoldExitS(S, a[1]), ret |-> HoldExitRet(S)]
    [] f = "is_busy"   -> [s |-> S, ret |-> IsBusyVal(S)]
    [] f = "is_hold"   -> [s |-> S, ret |-> IsHoldVal(S)]
    [] f = "is_full"   -> [s |-> S, ret |-> IF RingFull(cfg, S) THEN S_FULL ELSE S_OK]
    [] f = "is_buffered" -> [s |-> S, ret |-> IsBuffered(cfg, S, a[1], a[2])]
    [] f = "processed" -> [s |-> S, ret |-> IF a[1] = 0 THEN S.cmd ELSE S.ucmd]
    \* the three lookups by name: exact, case-sensitive, first match in registration order, -1 when absent
    [] f = "search_cmd" -> LET hit == {c \in 0..(NCmds(cfg) - 1) : CmdOf(cfg, c).name = a} IN
                           [s |-> S, ret |-> IF hit = {} THEN -1 ELSE CHOOSE c \in hit : \A d \in hit : c <= d]
    [] f = "search_grp" -> LET hit == {g \in 0..(Len(cfg.groups) - 1) : cfg.groups[g + 1].hasname /\ cfg.groups[g + 1].name = a} IN
                           [s |-> S, ret |-> IF hit = {} THEN -1 ELSE CHOOSE g \in hit : \A d \in hit : g <= d]
    [] f = "search_var" -> LET c == a[1]  nm == Tail(a)
                               hit == {v \in 0..(NVars(cfg, c) - 1) : VarOf(cfg, c, v).hasname /\ VarOf(cfg, c, v).name = nm} IN
                           [s |-> S, ret |-> IF hit = {} THEN -1 ELSE CHOOSE v \in hit : \A d \in hit : v <= d]

Locking(f) == f \in {"trigger", "hold_exit", "is_busy", "is_hold", "is_full"}

ApiSimple(cfg, S, f, a, evlog) ==
  IF ~(cfg.mutex /\ Locking(f)) THEN
     LET b == ApiBody(cfg, S, f, a) IN [s |-> b.s, obs |-> <<>>, ret |-> b.ret]
  ELSE IF evlog = <<>> \/ evlog[1].k # "lock" THEN [s |-> S, obs |-> <<Mismatch("lock", <<>>)>>, ret |-> 0]
  ELSE IF evlog[1].r # 0 THEN [s |-> S, obs |-> <<evlog[1]>>, ret |-> S_MUTEX_LOCK]
  ELSE LET b == ApiBody(cfg, S, f, a) IN
       IF Len(evlog) < 2 \/ evlog[2].k # "unlock" THEN [s |-> b.s, obs |-> <<evlog[1], Mismatch("unlock", <<>>)>>, ret |-> 0]
       ELSE [s |-> b.s, obs |-> <<evlog[1], evlog[2]>>, ret |-> IF evlog[2].r # 0 THEN S_MUTEX_UNLOCK ELSE b.ret]

\* ---- actions the harness performs inside a handler (field "in" of the handler's event)
SetMem(mem, c, v, val) == [mem EXCEPT ![c + 1][v + 1] = val]
SetFlag(cfg, e) == IF e.t = "group" THEN [cfg EXCEPT !.groups[e.i + 1].disable = e.val]
                   ELSE IF e.fl = "disable" THEN [cfg EXCEPT !.cmds[e.i + 1].disable = e.val]
                   ELSE [cfg EXCEPT !.cmds[e.i + 1].only_test = e.val]

\* the program renamed a command group (the descriptor is the program's own memory)
SetGroupName(cfg, e) == [cfg EXCEPT !.groups[e.i + 1].name = e.name, !.groups[e.i + 1].hasname = e.hasname]

RECURSIVE ApplyIn(_, _)
\* result: [x, ok]
ApplyIn(X, ins) ==
  IF ins = <<>> THEN [x |-> X, ok |-> TRUE]
  ELSE LET e == Head(ins) IN
       IF e.k = "api" THEN
          LET r == ApiSimple(X.cfg, X.s, e.f, e.a, e.ev) IN
          IF r.obs = e.ev /\ r.ret = e.ret THEN ApplyIn([X EXCEPT !.s = r.s], Tail(ins)) ELSE [x |-> X, ok |-> FALSE]
       ELSE IF e.k = "setmem" THEN ApplyIn([X EXCEPT !.mem = SetMem(X.mem, e.c, e.v, e.val)], Tail(ins))
       ELSE IF e.k = "flag" THEN ApplyIn([X EXCEPT !.cfg = SetFlag(X.cfg, e)], Tail(ins))
       ELSE [x |-> X, ok |-> FALSE]

(***************************************************************************)
(* External calls.  Each consumes the next answer; when the answer does    *)
(* not belong to the call the model makes, a MISMATCH event is emitted     *)
(* (so that obs differs from the log) and a harmless default is used.      *)
(***************************************************************************)
\* io->read: [x, b]  (b = -1: nothing)
DoRead(X) ==
  LET a == HeadAns(X) IN
  IF a.k = "rd" /\ a.off = X.s.inoff
  THEN [x |-> [Emit(PopAns(X), a) EXCEPT !.s.inoff = IF a.b = -1 THEN @ ELSE @ + 1], b |-> a.b]
  ELSE [x |-> Emit(PopAns(X), Mismatch("rd", X.s.inoff)), b |-> -1]

\* io->write(ch): [x, ok]
DoWrite(X, ch) ==
  LET a == HeadAns(X) IN
  IF a.k = "wr" /\ a.b = ch /\ a.ok = (a.r = 1)
  THEN [x |-> Emit(PopAns(X), a), ok |-> a.ok]
  ELSE [x |-> Emit(PopAns(X), Mismatch("wr", ch)), ok |-> FALSE]

\* command handler: [x, ret, data2, size2]
DoCmd(X, kind, c, f, data, size, aux) ==
  LET a == HeadAns(X)
      exp == [kind |-> kind, c |-> c, fsm |-> FsmName(f), data |-> data, size |-> size, aux |-> aux]
      fits == a.k = "cmd" /\ a.kind = kind /\ a.c = c /\ a.fsm = FsmName(f) /\ a.data = data
              /\ a.size = size /\ a.aux = aux /\ (kind = "write" => a.nul)
  IN IF ~fits THEN [x |-> Emit(PopAns(X), Mismatch("cmd", exp)), ret |-> RET_ERROR, data2 |-> data, size2 |-> size]
     ELSE LET r == ApplyIn(PopAns(X), a.in) IN
          IF r.ok THEN [x |-> Emit(r.x, a), ret |-> a.ret, data2 |-> a.data2, size2 |-> a.size2]
          ELSE [x |-> Emit(r.x, Mismatch("cmd.in", exp)), ret |-> RET_ERROR, data2 |-> data, size2 |-> size]

\* var->read / var->write: [x, r]
DoVar(X, k, c, v, ws) ==
  LET a == HeadAns(X)
      fits == a.k = k /\ a.c = c /\ a.v = v /\ (k = "vw" => a.ws = ws)
  IN IF ~fits THEN [x |-> Emit(PopAns(X), Mismatch(k, <<c, v, ws>>)), r |-> -1]
     ELSE LET r == ApplyIn(PopAns(X), a.in) IN
          IF r.ok THEN [x |-> Emit(r.x, a), r |-> a.r] ELSE [x |-> Emit(r.x, Mismatch("var.in", <<c, v>>)), r |-> -1]

(***************************************************************************)
(* Formatters (format_read_args / format_info_type)                        *)
(***************************************************************************)
Zeros(n) == [i \in 1..n |-> CH_0]
RECURSIVE HexOfBytes(_)
HexOfBytes(bs) == IF bs = <<>> THEN <<>>
                  ELSE <<HexDigit(bs[1] \div 16), HexDigit(bs[1] % 16)>> \o HexOfBytes(Tail(bs))
RECURSIVE EscapeStr(_)
EscapeStr(bs) == IF bs = <<>> THEN <<>>
                 ELSE (CASE bs[1] = BSLASH -> <<BSLASH, BSLASH>> [] bs[1] = QUOTE -> <<BSLASH, QUOTE>>
                         [] bs[1] = LF -> <<BSLASH, CH_n>> [] OTHER -> <<bs[1]>>) \o EscapeStr(Tail(bs))

\* the pieces format_read_args prints for one variable, in order (each piece is one print call, which
\* either fits completely or fails and ends the formatting); ok = FALSE for unsupported sizes
RECURSIVE HexPieces(_)
HexPieces(bs) == IF bs = <<>> THEN <<>>
                 ELSE << <<HexDigit(bs[1] \div 16), HexDigit(bs[1] % 16)>> >> \o HexPieces(Tail(bs))
RECURSIVE StrPieces(_)
StrPieces(bs) == IF bs = <<>> THEN <<>>
                 ELSE << (CASE bs[1] = BSLASH -> <<BSLASH, BSLASH>> [] bs[1] = QUOTE -> <<BSLASH, QUOTE>>
                            [] bs[1] = LF -> <<BSLASH, CH_n>> [] OTHER -> <<bs[1]>>) >> \o StrPieces(Tail(bs))
ReadVarPieces(var, val) ==
  CASE var.type \in {VT_INT, VT_UINT} ->
         IF var.size \notin {1, 2, 4} THEN [ok |-> FALSE, ps |-> <<>>]
         ELSE [ok |-> TRUE, ps |-> << IF var.acc = ACC_WO THEN <<CH_0>> ELSE val >>]
    [] var.type = VT_HEX ->
         IF var.size \notin {1, 2, 4} THEN [ok |-> FALSE, ps |-> <<>>]
         ELSE [ok |-> TRUE, ps |-> << <<CH_0, 120>> \o (IF var.acc = ACC_WO THEN Zeros(2 * var.size) ELSE val) >>]
    [] var.type = VT_BUFHEX ->
         [ok |-> TRUE, ps |-> HexPieces(IF var.acc = ACC_WO THEN [i \in 1..var.size |-> 0] ELSE val)]
    [] var.type = VT_STRING ->
         [ok |-> TRUE, ps |-> << <<QUOTE>> >> \o (IF var.acc = ACC_WO THEN <<>> ELSE StrPieces(CStr(val))) \o << <<QUOTE>> >>]
    [] OTHER -> [ok |-> FALSE, ps |-> <<>>]
RECURSIVE Flatten(_)
Flatten(ps) == IF ps = <<>> THEN <<>> ELSE Head(ps) \o Flatten(Tail(ps))
ReadVarText(var, val) == LET r == ReadVarPieces(var, val) IN [ok |-> r.ok, t |-> Flatten(r.ps)]

TypeLabel(var) ==
  LET w == CASE var.size = 1 -> <<56>> [] var.size = 2 -> <<49, 54>> [] var.size = 4 -> <<51, 50>> [] OTHER -> <<>>
  IN CASE var.type = VT_INT -> [ok |-> var.size \in {1, 2, 4}, t |-> <<73, 78, 84>> \o w]
       [] var.type = VT_UINT -> [ok |-> var.size \in {1, 2, 4}, t |-> <<85, 73, 78, 84>> \o w]
       [] var.type = VT_HEX -> [ok |-> var.size \in {1, 2, 4}, t |-> <<72, 69, 88>> \o w]
       [] var.type = VT_BUFHEX -> [ok |-> TRUE, t |-> <<72, 69, 88, 66, 85, 70>>]
       [] var.type = VT_STRING -> [ok |-> TRUE, t |-> <<83, 84, 82, 73, 78, 71>>]
       [] OTHER -> [ok |-> FALSE, t |-> <<>>]
AccLabel(var) == CASE var.acc = ACC_RW -> <<82, 87>> [] var.acc = ACC_RO -> <<82, 79>> [] var.acc = ACC_WO -> <<87, 79>> [] OTHER -> <<63, 63>>
\* the pieces format_info_type prints, in order
InfoPieces(var) == <<<<60>>>> \o (IF var.hasname THEN <<var.name, <<58>>>> ELSE <<>>)
                   \o <<TypeLabel(var).t, <<91>>, AccLabel(var), <<93>>, <<62>>>>

(***************************************************************************)
(* Shared pieces of both machines                                          *)
(***************************************************************************)
\* print_response_test: [s, ok]
RespTest(cfg, S, f) ==
  LET cmd == CmdOf(cfg, CurCmd(S, f))
      p == IF cmd.hasdesc THEN PrintAll(cfg, S, f, <<NLText(S), cmd.desc>>) ELSE [s |-> S, ok |-> TRUE]
  IN IF ~p.ok THEN p
     ELSE IF cmd.ht THEN [s |-> SetSt(p.s, f, ST_TEST_LOOP, US_TEST_LOOP), ok |-> TRUE]
     ELSE [s |-> IF f = "c" THEN StartFlush(p.s, ST_AF_OK) ELSE UStartFlush(p.s, US_AF_OK), ok |-> TRUE]

\* start_processing_format_test_args
StartTest(cfg, S, f) ==
  LET c == CurCmd(S, f)
      cmd == CmdOf(cfg, c)
      p == PrintAll(cfg, SetPos(S, f, 0), f, <<cmd.name, <<CH_EQ>>>>)
  IN IF ~p.ok THEN EndErr(p.s, f)
     ELSE IF Len(cmd.vars) > 0 THEN
          IF f = "c" THEN [p.s EXCEPT !.s = ST_FORMAT_TEST, !.idx = 0, !.var = VarBase(cfg, c)]
          ELSE [p.s EXCEPT !.us = US_FORMAT_TEST, !.uidx = 0, !.uvar = VarBase(cfg, c)]
     ELSE LET r == RespTest(cfg, p.s, f) IN IF r.ok THEN r.s ELSE EndErr(r.s, f)

\* start_processing_format_read_args
StartRead(cfg, S, f) ==
  LET c == CurCmd(S, f)
      cmd == CmdOf(cfg, c)
      p == PrintAll(cfg, SetPos(S, f, 0), f, <<cmd.name, <<CH_EQ>>>>)
  IN IF ~p.ok THEN EndErr(p.s, f)
     ELSE IF AccessPossible(cfg, c, ACC_RO) THEN
          IF f = "c" THEN [p.s EXCEPT !.s = ST_FORMAT_READ, !.idx = 0, !.var = VarBase(cfg, c)]
          ELSE [p.s EXCEPT !.us = US_FORMAT_READ, !.uidx = 0, !.uvar = VarBase(cfg, c)]
     ELSE IF ~cmd.hr THEN EndErr(p.s, f)
     ELSE SetSt(p.s, f, ST_READ_LOOP, US_READ_LOOP)

\* next_format_var_by_fsm: [s, more]   (more = TRUE: the step ends here)
NextFormatVar(cfg, S, f) ==
  LET c == CurCmd(S, f)
      i == CurVarIx(S, f) + 1
      S1 == IF f = "c" THEN [S EXCEPT !.idx = i] ELSE [S EXCEPT !.uidx = i]
  IN IF i < NVars(cfg, c) THEN
        IF Pos(S1, f) >= Cap(cfg, f) THEN [s |-> EndErr(S1, f), more |-> TRUE]
        ELSE LET S2 == SetPB(S1, f, Pos(S1, f) + 1, Take(Buf(S1, f), Pos(S1, f)) \o <<COMMA>>)
             IN [s |-> IF f = "c" THEN [S2 EXCEPT !.var = VarBase(cfg, c) + i] ELSE [S2 EXCEPT !.uvar = VarBase(cfg, c) + i],
                 more |-> TRUE]
     ELSE [s |-> S1, more |-> FALSE]

\* format_read_args (one variable per step)
FormatReadStep(X, f) ==
  LET S == X.s  cfg == X.cfg
      c == CurCmd(S, f)
      i == CurVarIx(S, f)
      var == VarOf(cfg, c, i)
      rv == IF var.vr THEN DoVar(X, "vr", c, i, 0) ELSE [x |-> X, r |-> 0]
  IN IF rv.r # 0 THEN [rv.x EXCEPT !.s = EndErr(rv.x.s, f)]
     ELSE LET X1 == rv.x
              t == ReadVarPieces(VarOf(X1.cfg, c, i), X1.mem[c + 1][i + 1])
              p == PrintAll(X1.cfg, X1.s, f, t.ps)
          IN IF ~t.ok THEN [X1 EXCEPT !.s = EndErr(X1.s, f)]
             ELSE IF ~p.ok THEN [X1 EXCEPT !.s = EndErr(p.s, f)]
             ELSE LET n == NextFormatVar(X1.cfg, p.s, f) IN
                  IF n.more THEN [X1 EXCEPT !.s = n.s]
                  ELSE IF CmdOf(X1.cfg, c).hr THEN [X1 EXCEPT !.s = SetSt(n.s, f, ST_READ_LOOP, US_READ_LOOP)]
                  ELSE [X1 EXCEPT !.s = IF f = "c" THEN StartFlush(n.s, ST_AF_OK) ELSE UStartFlush(n.s, US_AF_OK)]

\* format_test_args (one variable per step)
FormatTestStep(X, f) ==
  LET S == X.s  cfg == X.cfg
      c == CurCmd(S, f)
      var == VarOf(cfg, c, CurVarIx(S, f))
  IN IF ~TypeLabel(var).ok THEN [X EXCEPT !.s = EndErr(S, f)]
     ELSE LET p == PrintAll(cfg, S, f, InfoPieces(var)) IN
          IF ~p.ok THEN [X EXCEPT !.s = EndErr(p.s, f)]
          ELSE LET n == NextFormatVar(cfg, p.s, f) IN
               IF n.more THEN [X EXCEPT !.s = n.s]
               ELSE LET r == RespTest(cfg, n.s, f) IN [X EXCEPT !.s = IF r.ok THEN r.s ELSE EndErr(r.s, f)]

StartList(cfg, S) == IF NCmds(cfg) = 0 THEN AckOk(S)
                     ELSE [S EXCEPT !.idx = 0, !.len = 0, !.ct = CT_NONE, !.s = ST_PRINT_CMD]

\* process_read_loop / process_test_loop
LoopStep(X, f, kind) ==
  LET S == X.s
      c == CurCmd(S, f)
      h == DoCmd(X, kind, c, f, CStr(Buf(S, f)), Pos(S, f), Cap(X.cfg, f))
      X1 == h.x
      \* the handler may have rewritten the buffer and *data_size
      S1 == SetPB(X1.s, f, h.size2, h.data2)
      cfg == X1.cfg
      isRead == kind = "read"
      S2 == CASE h.ret = RET_OK -> EndOk(S1, f)
              [] h.ret = RET_DATA_OK -> IF f = "c" THEN StartFlush(S1, ST_AF_OK) ELSE UStartFlush(S1, US_AF_OK)
              [] h.ret = RET_DATA_NEXT -> IF f = "c" THEN StartFlush(S1, IF isRead THEN ST_AF_READ ELSE ST_AF_TEST)
                                          ELSE UStartFlush(S1, IF isRead THEN US_AF_READ ELSE US_AF_TEST)
              [] h.ret = RET_NEXT -> IF isRead THEN StartRead(cfg, S1, f) ELSE StartTest(cfg, S1, f)
              [] h.ret = RET_HOLD -> EnableHold(S1)
              [] h.ret = RET_HOLD_EXIT_OK -> EndOk(HoldExitS(S1, S_OK), f)
              [] h.ret = RET_HOLD_EXIT_ERROR -> EndErr(HoldExitS(S1, S_ERROR), f)
              [] h.ret = RET_LIST -> IF isRead THEN EndErr(S1, f)
                                     ELSE IF f = "c" THEN StartList(cfg, S1) ELSE EndOk(S1, f)
              [] OTHER -> EndErr(S1, f)
  IN [X1 EXCEPT !.s = S2]

\* process_io_write of either machine
FlushStep(X, f) ==
  LET S == X.s
      wb == IF f = "c" THEN S.wb ELSE S.uwb
      wph == IF f = "c" THEN S.wph ELSE S.uwph
      ch == At(WbText(S, wb), Pos(S, f))
  IN IF ch = NUL THEN
        [X EXCEPT !.s =
           CASE wph = WPH_BEFORE -> IF f = "c" THEN [S EXCEPT !.pos = 0, !.wb = WB_CMD, !.wph = WPH_MAIN]
                                    ELSE [S EXCEPT !.upos = 0, !.uwb = WB_EV, !.uwph = WPH_MAIN]
             [] wph = WPH_MAIN -> IF f = "c" THEN [S EXCEPT !.pos = 0, !.wb = NLCode(S), !.wph = WPH_AFTER]
                                  ELSE [S EXCEPT !.upos = 0, !.uwb = NLCode(S), !.uwph = WPH_AFTER]
             [] wph = WPH_AFTER -> IF f = "c" THEN [S EXCEPT !.s = S.waf] ELSE [S EXCEPT !.us = S.uwaf]
             [] OTHER -> S]
     ELSE LET w == DoWrite(X, ch) IN
          IF w.ok THEN [w.x EXCEPT !.s = SetPos(w.x.s, f, Pos(w.x.s, f) + 1)] ELSE w.x

(***************************************************************************)
(* Event machine: unsolicited_events_service.  Result: [x, stat]           *)
(***************************************************************************)
EvStep(X) ==
  LET S == X.s  cfg == X.cfg IN
  CASE S.us = US_IDLE ->
         IF S.cnt = 0 THEN [x |-> X, stat |-> S_OK]
         ELSE LET it == S.ring[S.head + 1]
                  S1 == [Pop(cfg, S) EXCEPT !.ucmd = it[1], !.uct = it[2]]
              IN [x |-> [X EXCEPT !.s = CASE it[2] = CT_READ -> StartRead(cfg, S1, "e")
                                          [] it[2] = CT_TEST -> StartTest(cfg, S1, "e")
                                          [] OTHER -> S1],
                  stat |-> S_OK]
    [] S.us = US_FORMAT_READ -> [x |-> FormatReadStep(X, "e"), stat |-> S_BUSY]
    [] S.us = US_FORMAT_TEST -> [x |-> FormatTestStep(X, "e"), stat |-> S_BUSY]
    [] S.us = US_READ_LOOP -> [x |-> LoopStep(X, "e", "read"), stat |-> S_BUSY]
    [] S.us = US_TEST_LOOP -> [x |-> LoopStep(X, "e", "test"), stat |-> S_BUSY]
    [] S.us = US_FLUSH_WAIT -> [x |-> IF S.s # ST_FLUSH THEN [X EXCEPT !.s.us = US_FLUSH] ELSE X, stat |-> S_BUSY]
    [] S.us = US_FLUSH -> [x |-> FlushStep(X, "e"), stat |-> S_BUSY]
    [] S.us = US_AF_RESET -> [x |-> [X EXCEPT !.s = UReset(S)], stat |-> S_BUSY]
    [] S.us = US_AF_OK -> [x |-> [X EXCEPT !.s = EndOk(S, "e")], stat |-> S_BUSY]
    [] S.us = US_AF_READ -> [x |-> [X EXCEPT !.s = StartRead(cfg, S, "e")], stat |-> S_BUSY]
    [] S.us = US_AF_TEST -> [x |-> [X EXCEPT !.s = StartTest(cfg, S, "e")], stat |-> S_BUSY]
    [] OTHER -> [x |-> X, stat |-> S_OK]

(***************************************************************************)
(* Decoders (parse_write_args and friends).  The argument text is the C    *)
(* string view of the command buffer from position p.                      *)
(***************************************************************************)
\* parse_int_decimal: [stat, neg, digits, pos]
RECURSIVE IntLoop(_, _, _, _, _)
IntLoop(t, p, sign, digits, ok) ==
  LET ch == At(t, p) IN
  IF ok /\ (ch = NUL \/ ch = COMMA) THEN [stat |-> IF ch = COMMA THEN 1 ELSE 0, neg |-> sign = -1, digits |-> digits, pos |-> p + 1]
  ELSE IF sign = 0 THEN
         IF ch = CH_MINUS THEN IntLoop(t, p + 1, -1, digits, ok)
         ELSE IF ch = CH_PLUS THEN IntLoop(t, p + 1, 1, digits, ok)
         ELSE IF IsDec(ch) THEN IntLoop(t, p + 1, 1, <<ch>>, TRUE)
         ELSE [stat |-> -1, neg |-> FALSE, digits |-> <<>>, pos |-> p + 1]
  ELSE IF IsDec(ch) THEN IntLoop(t, p + 1, sign, Append(digits, ch), TRUE)
  ELSE [stat |-> -1, neg |-> FALSE, digits |-> <<>>, pos |-> p + 1]

\* parse_uint_decimal
RECURSIVE UIntLoop(_, _, _, _)
UIntLoop(t, p, digits, ok) ==
  LET ch == At(t, p) IN
  IF ok /\ (ch = NUL \/ ch = COMMA) THEN [stat |-> IF ch = COMMA THEN 1 ELSE 0, digits |-> digits, pos |-> p + 1]
  ELSE IF IsDec(ch) THEN UIntLoop(t, p + 1, Append(digits, ch), TRUE)
  ELSE [stat |-> -1, digits |-> <<>>, pos |-> p + 1]

\* parse_num_hexadecimal (digits returned in upper case)
RECURSIVE HexLoop(_, _, _, _)
HexLoop(t, p, state, digits) ==
  LET ch == Up(At(t, p)) IN
  IF state >= 3 /\ (ch = NUL \/ ch = COMMA) THEN [stat |-> IF ch = COMMA THEN 1 ELSE 0, digits |-> digits, pos |-> p + 1]
  ELSE IF state = 0 THEN IF ch # CH_0 THEN [stat |-> -1, digits |-> <<>>, pos |-> p + 1] ELSE HexLoop(t, p + 1, 1, digits)
  ELSE IF state = 1 THEN IF ch # CH_X THEN [stat |-> -1, digits |-> <<>>, pos |-> p + 1] ELSE HexLoop(t, p + 1, 2, digits)
  ELSE IF IsHexUp(ch) THEN HexLoop(t, p + 1, 3, Append(digits, ch))
  ELSE [stat |-> -1, digits |-> <<>>, pos |-> p + 1]

\* parse_buffer_hexadecimal with its stores: [stat, size, val, pos, ws]
RECURSIVE BufHexLoop(_, _, _, _, _, _, _)
BufHexLoop(t, p, var, val, byte, state, size) ==
  LET ch == Up(At(t, p)) IN
  IF size > 0 /\ state = 0 /\ (ch = NUL \/ ch = COMMA)
  THEN [stat |-> IF ch = COMMA THEN 1 ELSE 0, val |-> val, pos |-> p + 1, ws |-> IF var.acc = ACC_RO THEN 0 ELSE size, setws |-> TRUE]
  ELSE IF ~IsHexUp(ch) THEN [stat |-> -1, val |-> val, pos |-> p + 1, ws |-> 0, setws |-> FALSE]
  ELSE LET b == ((byte * 16) % 256) + HexVal(ch) IN
       IF state # 0 THEN
          IF size >= var.size THEN [stat |-> -1, val |-> val, pos |-> p + 1, ws |-> 0, setws |-> FALSE]
          ELSE BufHexLoop(t, p + 1, var, IF var.acc = ACC_RO THEN val ELSE [val EXCEPT ![size + 1] = b], 0, 0, size + 1)
       ELSE BufHexLoop(t, p + 1, var, val, b, 1, size)

\* parse_buffer_string with its stores
RECURSIVE StrLoop(_, _, _, _, _, _)
StrLoop(t, p, var, val, state, size) ==
  LET ch == At(t, p)
      fail == [stat |-> -1, val |-> val, pos |-> p + 1, ws |-> 0, setws |-> FALSE]
      store(b) == IF size >= var.size THEN fail
                  ELSE StrLoop(t, p + 1, var, IF var.acc = ACC_RO THEN val ELSE [val EXCEPT ![size + 1] = b], 1, size + 1)
  IN CASE state = 0 -> IF ch # QUOTE THEN fail ELSE StrLoop(t, p + 1, var, val, 1, size)
       [] state = 1 -> IF ch = NUL THEN fail
                       ELSE IF ch = BSLASH THEN StrLoop(t, p + 1, var, val, 2, size)
                       ELSE IF ch = QUOTE THEN StrLoop(t, p + 1, var, val, 3, size)
                       ELSE store(ch)
       [] state = 2 -> IF ch = BSLASH THEN store(BSLASH) ELSE IF ch = QUOTE THEN store(QUOTE)
                       ELSE IF ch = CH_n THEN store(LF) ELSE fail
       [] state = 3 -> IF ch = NUL \/ ch = COMMA THEN
                          IF size >= var.size THEN fail
                          ELSE [stat |-> IF ch = COMMA THEN 1 ELSE 0,
                                val |-> IF var.acc = ACC_RO THEN val ELSE [val EXCEPT ![size + 1] = NUL],
                                pos |-> p + 1, ws |-> IF var.acc = ACC_RO THEN 0 ELSE size, setws |-> TRUE]
                       ELSE fail

PadHex(d, n) == Zeros(n - Len(d)) \o d
RECURSIVE StripHexZeros(_)
StripHexZeros(d) == IF Len(d) <= 1 THEN d ELSE IF d[1] = CH_0 THEN StripHexZeros(Tail(d)) ELSE d

\* One variable of parse_write_args: decode + validate + store.
\* Result: [stat (-1 error / 0 end / 1 comma), val, pos, ws]   (ws = -1: write_size left unchanged)
DecodeVar(t, p, var, old) ==
  CASE var.type = VT_INT ->
         LET r == IntLoop(t, p, 0, <<>>, FALSE)
             mag == StripZeros(r.digits)
         IN IF r.stat < 0 \/ ~DigitsLE(mag, D_I64MAX) THEN [stat |-> -1, val |-> old, pos |-> r.pos, ws |-> -1]
            ELSE IF var.acc = ACC_RO THEN [stat |-> r.stat, val |-> old, pos |-> r.pos, ws |-> 0]
            ELSE IF var.size \notin {1, 2, 4} THEN [stat |-> -1, val |-> old, pos |-> r.pos, ws |-> -1]
            ELSE IF ~DigitsLE(mag, IF r.neg THEN IntNegBound(var.size) ELSE IntPosBound(var.size)) THEN [stat |-> -1, val |-> old, pos |-> r.pos, ws |-> -1]
            ELSE [stat |-> r.stat, val |-> (IF r.neg /\ mag # <<CH_0>> THEN <<CH_MINUS>> ELSE <<>>) \o mag, pos |-> r.pos, ws |-> var.size]
    [] var.type = VT_UINT ->
         LET r == UIntLoop(t, p, <<>>, FALSE)
             mag == StripZeros(r.digits)
         IN IF r.stat < 0 \/ ~DigitsLE(mag, D_U64MAX) THEN [stat |-> -1, val |-> old, pos |-> r.pos, ws |-> -1]
            ELSE IF var.acc = ACC_RO THEN [stat |-> r.stat, val |-> old, pos |-> r.pos, ws |-> 0]
            ELSE IF var.size \notin {1, 2, 4} THEN [stat |-> -1, val |-> old, pos |-> r.pos, ws |-> -1]
            ELSE IF ~DigitsLE(mag, UIntBound(var.size)) THEN [stat |-> -1, val |-> old, pos |-> r.pos, ws |-> -1]
            ELSE [stat |-> r.stat, val |-> mag, pos |-> r.pos, ws |-> var.size]
    [] var.type = VT_HEX ->
         LET r == HexLoop(t, p, 0, <<>>)
             mag == StripHexZeros(r.digits)
         IN IF r.stat < 0 \/ Len(mag) > 16 THEN [stat |-> -1, val |-> old, pos |-> r.pos, ws |-> -1]
            ELSE IF var.acc = ACC_RO THEN [stat |-> r.stat, val |-> old, pos |-> r.pos, ws |-> 0]
            ELSE IF var.size \notin {1, 2, 4} THEN [stat |-> -1, val |-> old, pos |-> r.pos, ws |-> -1]
            ELSE IF Len(mag) > 2 * var.size THEN [stat |-> -1, val |-> old, pos |-> r.pos, ws |-> -1]
            ELSE [stat |-> r.stat, val |-> PadHex(mag, 2 * var.size), pos |-> r.pos, ws |-> var.size]
    [] var.type = VT_BUFHEX ->
         LET r == BufHexLoop(t, p, var, old, 0, 0, 0)
         IN [stat |-> r.stat, val |-> r.val, pos |-> r.pos, ws |-> IF r.setws THEN r.ws ELSE -1]
    [] var.type = VT_STRING ->
         LET r == StrLoop(t, p, var, old, 0, 0)
         IN [stat |-> r.stat, val |-> r.val, pos |-> r.pos, ws |-> IF r.setws THEN r.ws ELSE -1]
    [] OTHER -> [stat |-> -1, val |-> old, pos |-> p, ws |-> -1]

\* parse_write_args (one variable per step)
ParseWriteStep(X) ==
  LET S == X.s  cfg == X.cfg
      c == S.cmd
      i == S.idx
      var == VarOf(cfg, c, i)
      d == DecodeVar(S.abuf, S.pos, var, X.mem[c + 1][i + 1])
      S1 == [S EXCEPT !.pos = d.pos, !.ws = IF d.ws = -1 THEN S.ws ELSE d.ws]
      X1 == [X EXCEPT !.s = S1, !.mem = SetMem(X.mem, c, i, d.val)]
  IN IF d.stat < 0 THEN [X1 EXCEPT !.s = AckError(S1)]
     ELSE LET w == IF var.vw THEN DoVar(X1, "vw", c, i, S1.ws) ELSE [x |-> X1, r |-> 0] IN
          IF w.r # 0 THEN [w.x EXCEPT !.s = AckError(w.x.s)]
          ELSE LET X2 == w.x
                   S2 == [X2.s EXCEPT !.idx = i + 1]
                   cmd == CmdOf(X2.cfg, c)
               IN IF i + 1 < NVars(X2.cfg, c) /\ d.stat > 0 THEN [X2 EXCEPT !.s = [S2 EXCEPT !.var = VarBase(X2.cfg, c) + i + 1]]
                  ELSE IF d.stat > 0 THEN [X2 EXCEPT !.s = AckError(S2)]
                  ELSE IF cmd.need_all /\ i + 1 # NVars(X2.cfg, c) THEN [X2 EXCEPT !.s = AckError(S2)]
                  ELSE IF ~cmd.hw THEN [X2 EXCEPT !.s = AckOk(S2)]
                  ELSE [X2 EXCEPT !.s = [S2 EXCEPT !.s = ST_WRITE_LOOP]]

(***************************************************************************)
(* Command machine: the switch of cat_service.  Result: [x, stat]          *)
(***************************************************************************)
PrepSearch(S) == [S EXCEPT !.idx = 0, !.par = 0, !.cmd = -1]
DrainOrNotFound(S) == [S EXCEPT !.s = IF S.ch = LF THEN ST_NOT_FOUND ELSE ST_ERROR]
EffMatch(cfg, S, c) == IF Disabled(cfg, c) THEN 0 ELSE S.match[c + 1]

\* read_cmd_char: [x, got]
ReadChar(X, fold) ==
  LET r == DoRead(X) IN
  IF r.b = -1 THEN [x |-> r.x, got |-> FALSE]
  ELSE [x |-> [r.x EXCEPT !.s.ch = IF fold THEN Up(r.b) ELSE r.b], got |-> TRUE]

\* the suffix forms of print_cmd_list
ListHas(cfg, c, ct) ==
  LET cmd == CmdOf(cfg, c) IN
  CASE ct = CT_RUN -> cmd.hx
    [] ct = CT_READ -> cmd.hr \/ AccessPossible(cfg, c, ACC_RO)
    [] ct = CT_WRITE -> cmd.hw \/ AccessPossible(cfg, c, ACC_WO)
    [] ct = CT_TEST -> cmd.ht \/ Len(cmd.vars) > 0
ListSuffix(ct) == CASE ct = CT_RUN -> <<>> [] ct = CT_READ -> <<CH_Q>> [] ct = CT_WRITE -> <<CH_EQ>> [] ct = CT_TEST -> <<CH_EQ, CH_Q>>
ListNextCmd(cfg, S) == IF S.idx + 1 >= NCmds(cfg) THEN AckOk([S EXCEPT !.idx = S.idx + 1])
                       ELSE [S EXCEPT !.idx = S.idx + 1, !.len = 0, !.ct = CT_NONE, !.s = ST_PRINT_CMD]

PrintCmdStep(cfg, S0) ==
  LET S == [S0 EXCEPT !.cmd = S0.idx]
      c == S.idx
      cmd == CmdOf(cfg, c)
  IN CASE S.ct = CT_NONE ->
            IF Disabled(cfg, c) THEN ListNextCmd(cfg, S)
            ELSE [S EXCEPT !.ct = IF cmd.only_test THEN CT_TEST ELSE CT_RUN]
       [] S.ct \in {CT_RUN, CT_READ, CT_WRITE, CT_TEST} ->
            IF ListHas(cfg, c, S.ct) THEN
               LET S1 == [S EXCEPT !.pos = 0]
                   p1 == IF S1.len = 0 THEN PrintAll(cfg, S1, "c", <<NLText(S1)>>) ELSE [s |-> S1, ok |-> TRUE]
                   S2 == IF S1.len = 0 /\ p1.ok THEN [p1.s EXCEPT !.len = 1] ELSE p1.s
                   p2 == IF p1.ok THEN PrintAll(cfg, S2, "c", <<T_AT, cmd.name, ListSuffix(S.ct), NLText(S2)>>) ELSE [s |-> S2, ok |-> FALSE]
               IN IF ~p2.ok THEN AckError(p2.s)
                  ELSE [StartFlushRaw(p2.s, ST_PRINT_CMD) EXCEPT !.ct = S.ct + 1]
            ELSE [S EXCEPT !.ct = S.ct + 1]
       [] S.ct = CT_TOTAL -> ListNextCmd(cfg, S)
       [] OTHER -> AckError(S)

CmdStep(X) ==
  LET S == X.s  cfg == X.cfg  BUSY(x) == [x |-> x, stat |-> S_BUSY]  IDLE(x) == [x |-> x, stat |-> S_OK] IN
  CASE S.s = ST_ERROR ->
         LET r == ReadChar(X, TRUE)  S1 == r.x.s IN
         IF ~r.got THEN IDLE(r.x)
         ELSE BUSY([r.x EXCEPT !.s = CASE S1.ch = LF -> AckError(S1) [] S1.ch = CR -> [S1 EXCEPT !.cr = TRUE] [] OTHER -> S1])
    [] S.s = ST_IDLE ->
         LET r == ReadChar(X, TRUE)  S1 == r.x.s IN
         IF ~r.got THEN IDLE(r.x)
         ELSE BUSY([r.x EXCEPT !.s = CASE S1.ch = CH_A -> [S1 EXCEPT !.s = ST_PREFIX]
                                       [] S1.ch \in {LF, CR} -> S1 [] OTHER -> [S1 EXCEPT !.s = ST_ERROR]])
    [] S.s = ST_PREFIX ->
         LET r == ReadChar(X, TRUE)  S1 == r.x.s IN
         IF ~r.got THEN IDLE(r.x)
         ELSE BUSY([r.x EXCEPT !.s =
                CASE S1.ch = CH_T -> [S1 EXCEPT !.match = [i \in 1..NCmds(cfg) |-> 1], !.abuf = <<>>, !.idx = 0, !.len = 0,
                                                !.ct = CT_RUN, !.s = ST_NAME]
                  [] S1.ch = LF -> AckError(S1)
                  [] S1.ch = CR -> [S1 EXCEPT !.cr = TRUE]
                  [] OTHER -> [S1 EXCEPT !.s = ST_ERROR]])
    [] S.s = ST_NAME ->
         LET r == ReadChar(X, TRUE)  S1 == r.x.s IN
         IF ~r.got THEN IDLE(r.x)
         ELSE BUSY([r.x EXCEPT !.s =
                CASE S1.ch = LF -> IF S1.len # 0 THEN [PrepSearch(S1) EXCEPT !.s = ST_SEARCH] ELSE AckOk(S1)
                  [] S1.ch = CR -> [S1 EXCEPT !.cr = TRUE]
                  [] S1.ch = CH_Q -> IF S1.len = 0 THEN [S1 EXCEPT !.s = ST_ERROR] ELSE [S1 EXCEPT !.ct = CT_READ, !.s = ST_WAIT_READ]
                  [] S1.ch = CH_EQ -> IF S1.len = 0 THEN [S1 EXCEPT !.s = ST_ERROR]
                                      ELSE [PrepSearch([S1 EXCEPT !.ct = CT_WRITE]) EXCEPT !.s = ST_SEARCH]
                  [] OTHER -> IF IsNameChar(S1.ch) THEN [S1 EXCEPT !.len = S1.len + 1, !.s = ST_UPDATE]
                              ELSE [S1 EXCEPT !.s = ST_ERROR]])
    [] S.s = ST_UPDATE ->
         LET c == S.idx
             name == CmdOf(cfg, c).name
             m == IF EffMatch(cfg, S, c) = 0 THEN S.match[c + 1]
                  ELSE IF S.len > Len(name) THEN 0
                  ELSE IF Up(name[S.len]) # S.ch THEN 0
                  ELSE IF S.len = Len(name) THEN 2 ELSE S.match[c + 1]
             imp == S.imp \/ (EffMatch(cfg, S, c) # 0 /\ S.len <= Len(name) /\ Up(name[S.len]) = S.ch
                              /\ S.len = Len(name) /\ CmdOf(cfg, c).implicit)
             S1 == [S EXCEPT !.match[c + 1] = m, !.imp = imp, !.idx = S.idx + 1]
         IN BUSY([X EXCEPT !.s =
              IF S1.idx >= NCmds(cfg) THEN
                 IF ~S1.imp THEN [S1 EXCEPT !.idx = 0, !.s = ST_NAME]
                 ELSE [PrepSearch([S1 EXCEPT !.ct = CT_WRITE]) EXCEPT !.s = ST_SEARCH, !.imp = FALSE]
              ELSE S1])
    [] S.s = ST_WAIT_READ ->
         LET r == ReadChar(X, TRUE)  S1 == r.x.s IN
         IF ~r.got THEN IDLE(r.x)
         ELSE BUSY([r.x EXCEPT !.s = CASE S1.ch = LF -> [PrepSearch(S1) EXCEPT !.s = ST_SEARCH]
                                       [] S1.ch = CR -> [S1 EXCEPT !.cr = TRUE] [] OTHER -> [S1 EXCEPT !.s = ST_ERROR]])
    [] S.s = ST_SEARCH ->
         LET m == EffMatch(cfg, S, S.idx) IN
         BUSY([X EXCEPT !.s =
           IF m = 1 /\ S.cmd # -1 /\ S.idx + 1 = NCmds(cfg) THEN DrainOrNotFound(S)
           ELSE IF m = 2 THEN [S EXCEPT !.cmd = S.idx, !.s = ST_FOUND]
           ELSE LET S1 == IF m = 1 THEN [S EXCEPT !.cmd = S.idx, !.par = S.par + 1] ELSE S
                    S2 == [S1 EXCEPT !.idx = S1.idx + 1]
                IN IF S2.idx >= NCmds(cfg) THEN
                      IF S2.cmd = -1 THEN DrainOrNotFound(S2)
                      ELSE IF S2.par = 1 THEN [S2 EXCEPT !.s = ST_FOUND]
                      ELSE DrainOrNotFound(S2)                       \* repaired behaviour (DESIGN section 7, defect 1)
                   ELSE S2])
    [] S.s = ST_FOUND ->
         LET cmd == CmdOf(cfg, S.cmd) IN
         BUSY([X EXCEPT !.s =
           CASE S.ct = CT_RUN -> IF cmd.only_test \/ ~cmd.hx THEN AckError(S) ELSE [S EXCEPT !.s = ST_RUN_LOOP]
             [] S.ct = CT_READ -> IF cmd.only_test THEN AckError(S) ELSE StartRead(cfg, S, "c")
             [] S.ct = CT_WRITE -> [S EXCEPT !.len = 0, !.abuf = <<>>, !.s = ST_ARGS]
             [] OTHER -> AckError(S)])
    [] S.s = ST_NOT_FOUND -> BUSY([X EXCEPT !.s = AckError(S)])
    [] S.s = ST_ARGS ->
         LET r == ReadChar(X, FALSE)  S1 == r.x.s  cmd == CmdOf(cfg, S.cmd) IN
         IF ~r.got THEN IDLE(r.x)
         ELSE BUSY([r.x EXCEPT !.s =
                CASE S1.ch = LF ->
                       IF cmd.only_test THEN AckError(S1)
                       ELSE IF AccessPossible(cfg, S.cmd, ACC_WO) THEN [S1 EXCEPT !.s = ST_PARSE_WRITE, !.pos = 0, !.idx = 0, !.var = VarBase(cfg, S.cmd)]
                       ELSE IF ~cmd.hw THEN AckError(S1)
                       ELSE [S1 EXCEPT !.idx = 0, !.s = ST_WRITE_LOOP]
                  [] S1.ch = CR -> [S1 EXCEPT !.cr = TRUE]
                  [] OTHER ->
                       IF S1.len = 0 /\ S1.ch = CH_Q /\ (cmd.ht \/ Len(cmd.vars) > 0) /\ ~cmd.implicit
                       THEN [S1 EXCEPT !.ct = CT_TEST, !.s = ST_WAIT_TEST]
                       ELSE IF S1.len >= cfg.acap THEN [S1 EXCEPT !.s = ST_ERROR]
                       ELSE LET S2 == [S1 EXCEPT !.abuf = Append(Take(S1.abuf, S1.len), S1.ch), !.len = S1.len + 1]
                            IN IF S2.len < cfg.acap THEN S2 ELSE [S2 EXCEPT !.s = ST_ERROR]])
    [] S.s = ST_PARSE_WRITE -> BUSY(ParseWriteStep(X))
    [] S.s = ST_FORMAT_READ -> BUSY(FormatReadStep(X, "c"))
    [] S.s = ST_WAIT_TEST ->
         LET r == ReadChar(X, TRUE)  S1 == r.x.s IN
         IF ~r.got THEN IDLE(r.x)
         ELSE BUSY([r.x EXCEPT !.s = CASE S1.ch = LF -> StartTest(cfg, S1, "c")
                                       [] S1.ch = CR -> [S1 EXCEPT !.cr = TRUE] [] OTHER -> [S1 EXCEPT !.s = ST_ERROR]])
    [] S.s = ST_FORMAT_TEST -> BUSY(FormatTestStep(X, "c"))
    [] S.s = ST_WRITE_LOOP ->
         LET h == DoCmd(X, "write", S.cmd, "c", Take(S.abuf, S.len), S.len, S.idx)  S1 == h.x.s IN
         BUSY([h.x EXCEPT !.s = CASE h.ret \in {RET_OK, RET_DATA_OK} -> AckOk(S1)
                                  [] h.ret \in {RET_DATA_NEXT, RET_NEXT} -> S1
                                  [] h.ret = RET_HOLD -> EnableHold(S1)
                                  [] OTHER -> AckError(S1)])
    [] S.s = ST_RUN_LOOP ->
         LET h == DoCmd(X, "run", S.cmd, "c", <<>>, 0, 0)  S1 == h.x.s IN
         BUSY([h.x EXCEPT !.s = CASE h.ret \in {RET_OK, RET_DATA_OK} -> AckOk(S1)
                                  [] h.ret \in {RET_DATA_NEXT, RET_NEXT} -> S1
                                  [] h.ret = RET_HOLD -> EnableHold(S1)
                                  [] h.ret = RET_LIST -> StartList(h.x.cfg, S1)
                                  [] OTHER -> AckError(S1)])
    [] S.s = ST_READ_LOOP -> BUSY(LoopStep(X, "c", "read"))
    [] S.s = ST_TEST_LOOP -> BUSY(LoopStep(X, "c", "test"))
    [] S.s = ST_HOLD ->
         BUSY([X EXCEPT !.s = IF S.hx = 0 THEN S
                              ELSE IF S.hx < 0 THEN AckError([S EXCEPT !.hold = FALSE]) ELSE AckOk([S EXCEPT !.hold = FALSE])])
    [] S.s = ST_FLUSH_WAIT -> BUSY(IF S.us # US_FLUSH THEN [X EXCEPT !.s.s = ST_FLUSH] ELSE X)
    [] S.s = ST_FLUSH -> BUSY(FlushStep(X, "c"))
    [] S.s = ST_AF_RESET -> BUSY([X EXCEPT !.s = ResetState(S)])
    [] S.s = ST_AF_OK -> BUSY([X EXCEPT !.s = AckOk(S)])
    [] S.s = ST_AF_READ -> BUSY([X EXCEPT !.s = StartRead(cfg, S, "c")])
    [] S.s = ST_AF_TEST -> BUSY([X EXCEPT !.s = StartTest(cfg, S, "c")])
    [] S.s = ST_PRINT_CMD -> BUSY([X EXCEPT !.s = PrintCmdStep(cfg, S)])
    [] OTHER -> [x |-> X, stat |-> S_UNKNOWN]

(***************************************************************************)
(* cat_service.  ans = the answers of this call in call order (lock first  *)
(* and unlock last when a mutex is configured).  Result: [s, mem, cfg,     *)
(* obs, ret].                                                              *)
(***************************************************************************)
ServiceBody(X) ==
  LET e == EvStep(X)
      c == CmdStep(e.x)
      \* repaired behaviour (DESIGN section 7, defect 3): also busy while events are queued
      st == IF e.stat # S_OK \/ c.x.s.us # US_IDLE \/ c.x.s.cnt # 0 THEN S_BUSY ELSE c.stat
  IN [x |-> c.x, ret |-> st]

Service(S, mem, cfg, ans) ==
  LET X == Ctx(S, mem, cfg, ans) IN
  IF ~cfg.mutex THEN
     LET b == ServiceBody(X) IN [s |-> b.x.s, mem |-> b.x.mem, cfg |-> b.x.cfg, obs |-> b.x.obs, ret |-> b.ret, left |-> b.x.ans]
  ELSE LET l == HeadAns(X) IN
       IF l.k # "lock" THEN [s |-> S, mem |-> mem, cfg |-> cfg, obs |-> <<Mismatch("lock", <<>>)>>, ret |-> 0, left |-> <<>>]
       ELSE IF l.r # 0 THEN [s |-> S, mem |-> mem, cfg |-> cfg, obs |-> <<l>>, ret |-> S_MUTEX_LOCK, left |-> PopAns(X).ans]
       ELSE LET b == ServiceBody(Emit(PopAns(X), l))
                u == HeadAns(b.x)
            IN IF u.k # "unlock" THEN [s |-> b.x.s, mem |-> b.x.mem, cfg |-> b.x.cfg, obs |-> Append(b.x.obs, Mismatch("unlock", <<>>)), ret |-> 0, left |-> <<>>]
               ELSE [s |-> b.x.s, mem |-> b.x.mem, cfg |-> b.x.cfg, obs |-> Append(b.x.obs, u),
                     ret |-> IF u.r # 0 THEN S_MUTEX_UNLOCK ELSE b.ret, left |-> PopAns(b.x).ans]

\* ---- what the harness reads from the public struct after a call
B2I(b) == IF b THEN 1 ELSE 0
Proj(S) ==
  [s |-> S.s, us |-> S.us, ch |-> S.ch, cr |-> B2I(S.cr), ct |-> S.ct, cmd |-> S.cmd, var |-> S.var, idx |-> S.idx,
   par |-> S.par, len |-> S.len, pos |-> S.pos, ws |-> S.ws, imp |-> B2I(S.imp), hold |-> B2I(S.hold), hx |-> S.hx,
   wb |-> S.wb, wph |-> S.wph, waf |-> S.waf, upos |-> S.upos, uidx |-> S.uidx, ucmd |-> S.ucmd, uvar |-> S.uvar,
   uct |-> S.uct, uwb |-> S.uwb, uwph |-> S.uwph, uwaf |-> S.uwaf, head |-> S.head, tail |-> S.tail, cnt |-> S.cnt,
   ring |-> S.ring]
=============================================================================
