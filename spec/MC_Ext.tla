------------------------------- MODULE MC_Ext -------------------------------
EXTENDS MCBase, TLC

(* Unregistered command descriptors: the table has one command; a second descriptor with the SAME name (other variable
   value, own read handler) is only ever passed to the trigger functions.  Lines can only reach the registered one;
   events on either are formatted from their own descriptor; observers distinguish them.  C02 / C10 / C11 / C13. *)
N_U == <<85>>
D7 == <<55>>
TE(q) == MkCfg(<<MkCmd(N_U, FALSE, FALSE, TRUE, FALSE, <<U8(D5)>>), MkCmd(N_U, FALSE, TRUE, FALSE, TRUE, <<U8(D7)>>)>>, 6, 6, q, FALSE) @@ [ntab |-> 1]
MCTables == {TE(1), TE(2)}
MCTablesQ == {TE(2)}
MCBytes == {65, 84, 85, 10}
MCBytesT == {65, 84, 85, 63, 10}
MCCodes == {RET_DATA_OK, RET_OK, RET_NEXT}
MCTrigs == {<<1, CT_READ>>, <<1, CT_TEST>>, <<0, CT_READ>>}
=============================================================================
