------------------------------ MODULE MC_Flags ------------------------------
EXTENDS MCBase


(* All subsets and histories of enable / disable / only_test flags between lines: C09. *)
G2 == <<[disable |-> FALSE], [disable |-> FALSE]>>
TF == MkCfgG(<<MkCmd(N_A, TRUE, TRUE, TRUE, TRUE, <<>>), [MkCmd(N_AB, FALSE, FALSE, TRUE, FALSE, <<U8(D5)>>) EXCEPT !.group = 1],
               [MkCmd(N_ABA, TRUE, FALSE, TRUE, FALSE, <<>>) EXCEPT !.group = 1]>>, G2, 6, 6, 1, FALSE)
MCTables == {TF}
MCBytes == {65, 84, 66, 63, 61, 10}
MCCodes == {RET_OK}
MCToggles == {[t |-> "cmd", i |-> 0, fl |-> "disable"], [t |-> "cmd", i |-> 1, fl |-> "disable"], [t |-> "group", i |-> 1, fl |-> "disable"],
              [t |-> "cmd", i |-> 2, fl |-> "only_test"], [t |-> "cmd", i |-> 0, fl |-> "only_test"]}

=============================================================================
