SPECIFICATION Spec
CONSTANTS
  NProd = 3
  QCap = 3
  Budget = 3
  Racy = FALSE
INVARIANT NeverMoreThanAccepted
INVARIANT ExactlyOnce
INVARIANT RingOk
INVARIANT MutualExclusion
CHECK_DEADLOCK FALSE
