------------------------------ MODULE CatText ------------------------------
(***************************************************************************)
(* Bytes are 0..255, texts are sequences of bytes.  TLC integers are 32    *)
(* bit, so numerals are never turned into integers: a decimal argument is  *)
(* a digit sequence and "fits int16" is a comparison of digit sequences.   *)
(***************************************************************************)
EXTENDS Integers, Sequences, FiniteSets

LF == 10
CR == 13
NUL == 0
QUOTE == 34
BSLASH == 92
COMMA == 44
CH_A == 65
CH_T == 84
CH_X == 88
CH_EQ == 61
CH_Q == 63
CH_0 == 48
CH_PLUS == 43
CH_MINUS == 45
CH_n == 110

Up(b) == IF b \in 97..122 THEN b - 32 ELSE b
MapUp(t) == [i \in 1..Len(t) |-> Up(t[i])]

IsNameChar(b) == \/ b \in 65..90 \/ b \in 48..57
                 \/ b \in {43, 35, 36, 64, 95, 37, 38}   \* + # $ @ _ % &
IsDec(b) == b \in 48..57
IsHexUp(b) == b \in 48..57 \/ b \in 65..70                \* after Up()
HexVal(b) == IF b \in 48..57 THEN b - 48 ELSE b - 55      \* b already upper case
HexDigit(v) == IF v < 10 THEN 48 + v ELSE 55 + v

Take(t, n) == IF n >= Len(t) THEN t ELSE SubSeq(t, 1, n)
Drop(t, n) == IF n >= Len(t) THEN <<>> ELSE SubSeq(t, n + 1, Len(t))

\* index (1-based) of the first NUL of t, or Len(t)+1
RECURSIVE FirstNul(_, _)
FirstNul(t, i) == IF i > Len(t) THEN i ELSE IF t[i] = NUL THEN i ELSE FirstNul(t, i + 1)
CStr(t) == Take(t, FirstNul(t, 1) - 1)

\* byte of the C string view at 0-based position p (NUL past the end)
At(t, p) == IF p < Len(t) THEN t[p + 1] ELSE NUL

(***************************************************************************)
(* Digit-sequence arithmetic (digits are the ASCII codes 48..57).          *)
(***************************************************************************)
RECURSIVE StripZeros(_)
StripZeros(d) == IF Len(d) <= 1 THEN d ELSE IF d[1] = CH_0 THEN StripZeros(Tail(d)) ELSE d

RECURSIVE LexLE(_, _)
LexLE(a, b) == IF a = <<>> THEN TRUE
               ELSE IF a[1] < b[1] THEN TRUE
               ELSE IF a[1] > b[1] THEN FALSE
               ELSE LexLE(Tail(a), Tail(b))
\* a, b canonical (no leading zeros): a <= b
DigitsLE(a, b) == Len(a) < Len(b) \/ (Len(a) = Len(b) /\ LexLE(a, b))

Txt(s) == s  \* placeholder for readability: texts are written as tuples of codes

D_127 == <<49,50,55>>
D_128 == <<49,50,56>>
D_255 == <<50,53,53>>
D_32767 == <<51,50,55,54,55>>
D_32768 == <<51,50,55,54,56>>
D_65535 == <<54,53,53,51,53>>
D_2147483647 == <<50,49,52,55,52,56,51,54,52,55>>
D_2147483648 == <<50,49,52,55,52,56,51,54,52,56>>
D_4294967295 == <<52,50,57,52,57,54,55,50,57,53>>
D_I64MAX == <<57,50,50,51,51,55,50,48,51,54,56,53,52,55,55,53,56,48,55>>          \* 9223372036854775807
D_U64MAX == <<49,56,52,52,54,55,52,52,48,55,51,55,48,57,53,53,49,54,49,53>>       \* 18446744073709551615

IntPosBound(size) == CASE size = 1 -> D_127 [] size = 2 -> D_32767 [] size = 4 -> D_2147483647
IntNegBound(size) == CASE size = 1 -> D_128 [] size = 2 -> D_32768 [] size = 4 -> D_2147483648
UIntBound(size) == CASE size = 1 -> D_255 [] size = 2 -> D_65535 [] size = 4 -> D_4294967295

T_OK == <<79, 75>>
T_ERROR == <<69, 82, 82, 79, 82>>
T_AT == <<65, 84>>
=============================================================================
