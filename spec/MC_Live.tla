------------------------------- MODULE MC_Live -------------------------------
(* Liveness under weak fairness of cat_service: once the budgets are spent, cat_service eventually reports OK (C15). *)
EXTENDS MC_Sched
=============================================================================
