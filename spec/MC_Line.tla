------------------------------- MODULE MC_Line -------------------------------
(* All input streams over a small alphabet against a handful of tables: C01 C02 C06 C09 (+ structural invariants). *)
EXTENDS MCBase

T1 == MkCfg(<<MkCmd(N_A, FALSE, FALSE, TRUE, FALSE, <<>>), MkCmd(N_AB, TRUE, TRUE, FALSE, FALSE, <<U8(D5)>>), MkCmd(N_B, FALSE, FALSE, FALSE, TRUE, <<>>)>>, 6, 6, 1, FALSE)
T2 == MkCfg(<<MkCmd(N_AB, TRUE, FALSE, TRUE, FALSE, <<>>), MkCmd(N_ABA, FALSE, TRUE, TRUE, FALSE, <<U8(D5)>>), MkCmd(N_B, TRUE, FALSE, TRUE, TRUE, <<>>)>>, 7, 7, 1, FALSE)
T3 == MkCfg(<<[MkCmd(N_A, TRUE, FALSE, FALSE, FALSE, <<U8(D5)>>) EXCEPT !.implicit = TRUE], MkCmd(N_AB, FALSE, FALSE, TRUE, FALSE, <<>>), MkCmd(N_B, FALSE, TRUE, TRUE, FALSE, <<>>)>>, 8, 8, 1, FALSE)
T4 == MkCfg(<<MkCmd(N_AB, FALSE, FALSE, TRUE, FALSE, <<>>), MkCmd(N_AB, TRUE, TRUE, TRUE, TRUE, <<>>), [MkCmd(N_B, FALSE, FALSE, TRUE, FALSE, <<>>) EXCEPT !.only_test = TRUE]>>, 6, 6, 1, FALSE)
T5 == MkCfg(<<MkCmd(N_ABA, FALSE, FALSE, TRUE, FALSE, <<>>), MkCmd(N_AB, FALSE, FALSE, TRUE, FALSE, <<>>), [MkCmd(N_A, FALSE, FALSE, TRUE, FALSE, <<>>) EXCEPT !.disable = TRUE]>>, 6, 6, 1, FALSE)

\* names equal ignoring case: the ordinary one is registered first, the implicit-write one later (registration order decides, also for implicit write)
T6 == MkCfg(<<MkCmd(<<97>>, TRUE, FALSE, TRUE, FALSE, <<>>), [MkCmd(N_A, TRUE, FALSE, FALSE, FALSE, <<>>) EXCEPT !.implicit = TRUE], MkCmd(N_AB, TRUE, FALSE, TRUE, FALSE, <<>>)>>, 6, 6, 1, FALSE)

MCTables == {T1, T2, T3, T4, T5, T6}
MCTables7 == {T3, T6}
MCBytes == {65, 84, 66, 97, 61, 63, 49, 13, 10}
MCCodes == {RET_OK, RET_ERROR}
Bounded == nbytes <= MaxBytes
=============================================================================
