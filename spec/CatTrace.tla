------------------------------ MODULE CatTrace ------------------------------
(***************************************************************************)
(* Trace specification, step grain: every recorded API call of the real    *)
(* library (one ndjson record written by harness/catdrv.c) must be the      *)
(* step CatImpl takes under the logged environment answers: same external   *)
(* calls in the same order with the same arguments, same return value,      *)
(* same projection of the object, same variable storage.                    *)
(*                                                                         *)
(* The specification is deterministic (every environment choice is logged), *)
(* so TLC walks a single path of Len(Trace)+1 states.  A record the         *)
(* specification cannot match is recorded as "drift" and the rest of that   *)
(* scenario is skipped (validation resumes at the next "cfg" record).       *)
(* The result is written as JSON to the file named by env CAT_RESULT.       *)
(*                                                                         *)
(* In the same pass the property monitors of CatMon consume every record   *)
(* (observable grain: they never look at the projected struct), so one     *)
(* TLC run yields both the conformance result ("drift") and the property   *)
(* verdicts ("bad").  CAT_IMPL=0 switches the step-grain part off.         *)
(***************************************************************************)
EXTENDS CatMon, Json, IOUtils, SequencesExt

TraceFile == IF "CAT_TRACE" \in DOMAIN IOEnv THEN IOEnv.CAT_TRACE ELSE "trace.ndjson"
ResultFile == IF "CAT_RESULT" \in DOMAIN IOEnv THEN IOEnv.CAT_RESULT ELSE "result.json"
TraceLog == ndJsonDeserialize(TraceFile)

ImplOn == ~("CAT_IMPL" \in DOMAIN IOEnv /\ IOEnv.CAT_IMPL = "0")
\* debugging aid: CAT_DEBUG_AT=<record number> prints the monitor before that record is consumed
DebugAt == IF "CAT_DEBUG_AT" \in DOMAIN IOEnv THEN IOEnv.CAT_DEBUG_AT ELSE ""

VARIABLES l, S, mem, cfg, skip, res, mon, mres

vars == <<l, S, mem, cfg, skip, res, mon, mres>>

EmptyCfg == [qcap |-> 1, acap |-> 6, ucap |-> 6, mutex |-> FALSE, groups |-> <<>>, cmds |-> <<>>, sid |-> -1, fill |-> 0]

Init == /\ l = 1
        /\ cfg = EmptyCfg
        /\ S = InitS(EmptyCfg)
        /\ mem = <<>>
        /\ skip = TRUE
        /\ res = [drift |-> <<>>, scenarios |-> 0, steps |-> 0, skipped |-> 0]
        /\ mon = MonInit(EmptyCfg)
        /\ mres = [bad |-> <<>>, ulog |-> <<>>, uncl |-> 0, txns |-> 0, units |-> 0, evs |-> 0, lostend |-> 0]

Harnessed(e) == e.k \in {"mem", "canary", "half", "crash"}
Answers(ev) == SelectSeq(ev, LAMBDA e : ~Harnessed(e))
MemEvents(ev) == SelectSeq(ev, LAMBDA e : e.k = "mem")

\* variables the harness itself rewrote inside handlers of this call (depth one)
RECURSIVE NestedSetmem(_)
NestedSetmem(ev) ==
  IF ev = <<>> THEN {}
  ELSE LET e == Head(ev)
           here == IF e.k \in {"cmd", "vr", "vw"} THEN {<<x.c, x.v>> : x \in {e.in[i] : i \in {j \in 1..Len(e.in) : e.in[j].k = "setmem"}}} ELSE {}
       IN here \cup NestedSetmem(Tail(ev))

\* last logged value of variable (c, v) among the mem events, or "none"
LastMem(mev, c, v) ==
  LET idx == {i \in 1..Len(mev) : mev[i].c = c /\ mev[i].v = v} IN
  IF idx = {} THEN [found |-> FALSE, val |-> <<>>]
  ELSE [found |-> TRUE, val |-> mev[CHOOSE i \in idx : \A j \in idx : j <= i].after]

MemAgrees(ev, mem0, mem1, cf) ==
  LET mev == MemEvents(ev)
      touched == NestedSetmem(ev)
  IN \A c \in 0..(Len(cf.cmds) - 1) : \A v \in 0..(Len(cf.cmds[c + 1].vars) - 1) :
        LET lm == LastMem(mev, c, v) IN
        IF <<c, v>> \in touched THEN TRUE      \* rewritten by the harness inside a handler: order relative to library stores is not logged
        ELSE IF lm.found THEN mem1[c + 1][v + 1] = lm.val
        ELSE mem1[c + 1][v + 1] = mem0[c + 1][v + 1]

\* n consecutive cat_service calls fed from one answer list (compact records have n > 1)
RECURSIVE ServiceN(_, _, _, _, _, _, _)
ServiceN(n, S0, mem0, cfg0, ans, obs, ret) ==
  IF n = 0 THEN [s |-> S0, mem |-> mem0, cfg |-> cfg0, obs |-> obs, ret |-> ret, left |-> ans]
  ELSE LET r == Service(S0, mem0, cfg0, ans) IN ServiceN(n - 1, r.s, r.mem, r.cfg, r.left, obs \o r.obs, r.ret)

HasSt(rec) == "st" \in DOMAIN rec

Drift(rec, why, exp) == [l |-> l, sid |-> cfg.sid, f |-> rec.f, why |-> why, exp |-> exp]

NoteDrift(rec, why, exp) ==
  /\ res' = [res EXCEPT !.drift = IF Len(@) < 20 THEN Append(@, Drift(rec, why, exp)) ELSE @, !.steps = @ + 1]
  /\ skip' = TRUE
  /\ UNCHANGED <<S, mem, cfg>>

StepCfg(rec) ==
  /\ cfg' = rec
  /\ S' = InitS(rec)
  /\ mem' = InitMem(rec)
  /\ skip' = (~ImplOn \/ ("fill" \in DOMAIN rec /\ rec.fill # 0))
  /\ res' = [res EXCEPT !.scenarios = @ + 1]

StepSvc(rec, n) ==
  LET ans == Answers(rec.ev)
      r == ServiceN(n, S, mem, cfg, ans, <<>>, 0)
  IN IF r.obs # ans THEN NoteDrift(rec, "obs", r.obs)
     ELSE IF r.ret # rec.ret THEN NoteDrift(rec, "ret", r.ret)
     ELSE IF HasSt(rec) /\ Proj(r.s) # rec.st THEN NoteDrift(rec, "state", Proj(r.s))
     ELSE IF ~MemAgrees(rec.ev, mem, r.mem, cfg) THEN NoteDrift(rec, "mem", r.mem)
     ELSE /\ S' = r.s /\ mem' = r.mem /\ cfg' = r.cfg
          /\ res' = [res EXCEPT !.steps = @ + 1]
          /\ UNCHANGED skip

StepApi(rec) ==
  LET r == ApiSimple(cfg, S, rec.f, rec.a, Answers(rec.ev)) IN
  IF r.obs # Answers(rec.ev) THEN NoteDrift(rec, "obs", r.obs)
  ELSE IF r.ret # rec.ret THEN NoteDrift(rec, "ret", r.ret)
  ELSE IF HasSt(rec) /\ Proj(r.s) # rec.st THEN NoteDrift(rec, "state", Proj(r.s))
  ELSE /\ S' = r.s
       /\ res' = [res EXCEPT !.steps = @ + 1]
       /\ UNCHANGED <<mem, cfg, skip>>

StepQev(rec) ==
  LET exp == [c \in 1..Len(cfg.cmds) |-> <<IsBuffered(cfg, S, c - 1, CT_NONE), IsBuffered(cfg, S, c - 1, CT_READ), IsBuffered(cfg, S, c - 1, CT_TEST)>>] IN
  IF rec.pu # S.ucmd \/ rec.pc # S.cmd \/ rec.bf # exp THEN NoteDrift(rec, "qev", <<S.ucmd, S.cmd, exp>>)
  ELSE /\ res' = [res EXCEPT !.steps = @ + 1] /\ UNCHANGED <<S, mem, cfg, skip>>

StepEnv(rec) ==
  CASE rec.f = "setmem" -> /\ mem' = SetMem(mem, rec.c, rec.v, rec.val) /\ UNCHANGED <<S, cfg, skip, res>>
    [] rec.f = "flag" -> /\ cfg' = SetFlag(cfg, rec) /\ UNCHANGED <<S, mem, skip, res>>
    [] rec.f = "gname" -> /\ cfg' = SetGroupName(cfg, rec) /\ UNCHANGED <<S, mem, skip, res>>
    [] OTHER -> UNCHANGED <<S, mem, cfg, skip, res>>

\* fold the finished scenario's monitor into the result
\* per batch: at most 12 entries per tag
RECURSIVE AppendCapped(_, _)
AppendCapped(acc, new) == IF new = <<>> THEN acc
                          ELSE AppendCapped(IF TagCount(acc, Head(new).p) < 12 THEN Append(acc, Head(new)) ELSE acc, Tail(new))
Harvest(m) == [bad |-> AppendCapped(mres.bad, m.bad),
               ulog |-> IF Len(mres.ulog) < 20 THEN mres.ulog \o m.ulog ELSE mres.ulog, uncl |-> mres.uncl + m.uncl, txns |-> mres.txns + m.txns,
               units |-> mres.units + m.units, evs |-> mres.evs + m.evs, lostend |-> mres.lostend + (IF m.lost THEN 1 ELSE 0)]

MonNext(rec) ==
  IF rec.e = "cfg" THEN /\ mon' = MonInit(rec) /\ mres' = Harvest(mon)
  ELSE IF rec.e = "end" THEN /\ mon' = MonInit(EmptyCfg) /\ mres' = Harvest(MonRecord(mon, rec))
  ELSE /\ mon' = MonRecord(mon, rec) /\ UNCHANGED mres

Next ==
  /\ l <= Len(TraceLog)
  /\ l' = l + 1
  /\ (DebugAt = ToString(l) => PrintT(<<"MON", [q |-> mon.q, eph |-> mon.eph, ec |-> mon.ec, et |-> mon.et, eclosing |-> mon.eclosing, emaybe |-> mon.emaybe, eunc |-> mon.eunc,
                                                  lost |-> mon.lost, cph |-> mon.cph, cc |-> mon.cc, expE |-> Len(mon.expE), expC |-> Len(mon.expC), n |-> mon.n]>>))
  /\ MonNext(TraceLog[l])
  /\ LET rec == TraceLog[l] IN
     IF rec.e = "cfg" THEN StepCfg(rec)
     ELSE IF skip THEN /\ res' = [res EXCEPT !.skipped = @ + 1] /\ UNCHANGED <<S, mem, cfg, skip>>
     ELSE IF rec.e = "api" THEN
             IF rec.f = "svc" THEN StepSvc(rec, 1)
             ELSE IF rec.f = "svcs" THEN StepSvc(rec, rec.a[1])
             ELSE IF rec.f = "qev" THEN StepQev(rec)
             ELSE IF rec.f = "none" THEN NoteDrift(rec, "crash", <<>>)
             ELSE StepApi(rec)
     ELSE IF rec.e = "env" THEN StepEnv(rec)
     ELSE UNCHANGED <<S, mem, cfg, skip, res>>

Spec == Init /\ [][Next]_vars

\* reached the end of the log: write the result file (evaluated as an invariant, once, in the last state)
Done == l = Len(TraceLog) + 1 => JsonSerialize(ResultFile, [impl |-> res, mon |-> Harvest(mon)])
=============================================================================
