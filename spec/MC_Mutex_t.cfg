SPECIFICATION Spec
CONSTANTS
  Tables <- MCTables
  Bytes <- MCBytes
  MaxBytes = 5
  MaxLines = 1
  Codes <- MCCodes
  VarRets = {0}
  WrChoices = {TRUE, FALSE}
  RdNone = TRUE
  Trigs <- MCTrigs
  MaxTrig = 2
  HxSet <- HxBoth
  MaxHx = 1
  Queries = TRUE
  LockRets = {0, 1}
  MaxLockFail = 2
  Toggles = {}
  MaxToggle = 0
  Edits = FALSE
  Prefix <- MCPrefix
  MaxHavoc = 0
  KeepRec = FALSE
  NestedTrigs = {}
  NestedHx = {}
  EvMayHold = FALSE
INVARIANT NoBad
INVARIANT Structural
CHECK_DEADLOCK FALSE
