----------------------------- MODULE CatOracle -----------------------------
(***************************************************************************)
(* Declarative meaning of one input line and of the automatic texts,       *)
(* written without reference to the machine states of CatImpl (no UPDATE / *)
(* SEARCH stepping, no match bits, no cursors): DESIGN.md appendix B.      *)
(* The data-level functions (decoders, formatters) are those of CatImpl;   *)
(* the function-level configurations MC_Fn* compare them with the          *)
(* declarative definitions at the end of this module.                      *)
(***************************************************************************)
EXTENDS CatImpl

EnabledCmd(cfg, c) == ~Disabled(cfg, c)
UpName(cfg, c) == MapUp(CmdOf(cfg, c).name)
AllCmds(cfg) == 0..(NCmds(cfg) - 1)
FullSet(cfg, n) == {c \in AllCmds(cfg) : EnabledCmd(cfg, c) /\ UpName(cfg, c) = n}
PartSet(cfg, n) == {c \in AllCmds(cfg) : EnabledCmd(cfg, c) /\ Len(n) < Len(UpName(cfg, c))
                                          /\ Take(UpName(cfg, c), Len(n)) = n}
MinOf(s) == CHOOSE x \in s : \A y \in s : x <= y
\* the command a typed (upper-cased) name designates, or -1
Resolve(cfg, n) == IF FullSet(cfg, n) # {} THEN MinOf(FullSet(cfg, n))
                   ELSE IF Cardinality(PartSet(cfg, n)) = 1 THEN MinOf(PartSet(cfg, n)) ELSE -1
ImplicitHit(cfg, n) == \E c \in FullSet(cfg, n) : CmdOf(cfg, c).implicit

StripCR(t) == SelectSeq(t, LAMBDA b : b # CR)

OErr(why) == [k |-> "error", c |-> -1, args |-> <<>>, why |-> why]

Dispatch(cfg, kind, n, args) ==
  LET c == Resolve(cfg, n) IN
  IF c = -1 THEN OErr("nomatch")
  ELSE LET cmd == CmdOf(cfg, c) IN
  CASE kind = "run" ->
         IF cmd.only_test THEN OErr("onlytest") ELSE IF ~cmd.hx THEN OErr("unavail")
         ELSE [k |-> "run", c |-> c, args |-> <<>>, why |-> ""]
    [] kind = "read" ->
         IF cmd.only_test THEN OErr("onlytest")
         ELSE IF ~(Len(cmd.name) + 1 < cfg.acap) THEN OErr("fit")
         ELSE IF AccessPossible(cfg, c, ACC_RO) \/ cmd.hr THEN [k |-> "read", c |-> c, args |-> <<>>, why |-> ""]
         ELSE OErr("unavail")
    [] kind = "write" ->
         IF args # <<>> /\ args[1] = CH_Q /\ (cmd.ht \/ Len(cmd.vars) > 0) /\ ~cmd.implicit THEN
            IF args = <<CH_Q>> THEN [k |-> "test", c |-> c, args |-> <<>>, why |-> ""] ELSE OErr("syntax")
         ELSE IF Len(args) >= cfg.acap THEN OErr("long")
         ELSE IF cmd.only_test THEN OErr("onlytest")
         ELSE IF AccessPossible(cfg, c, ACC_WO) THEN [k |-> "write", c |-> c, args |-> args, why |-> "vars"]
         ELSE IF ~cmd.hw THEN OErr("unavail")
         ELSE [k |-> "write", c |-> c, args |-> args, why |-> "raw"]

\* b: the line without CR, ending with LF; i: index of the next byte; n: typed name so far (upper case)
RECURSIVE ScanName(_, _, _, _)
ScanName(cfg, b, i, n) ==
  LET ch == Up(b[i]) IN
  IF ch = LF THEN IF n = <<>> THEN [k |-> "ok", c |-> -1, args |-> <<>>, why |-> ""] ELSE Dispatch(cfg, "run", n, <<>>)
  ELSE IF ch = CH_Q THEN IF n = <<>> THEN OErr("syntax")
                         ELSE IF i + 1 = Len(b) THEN Dispatch(cfg, "read", n, <<>>) ELSE OErr("syntax")
  ELSE IF ch = CH_EQ THEN IF n = <<>> THEN OErr("syntax") ELSE Dispatch(cfg, "write", n, SubSeq(b, i + 1, Len(b) - 1))
  ELSE IF IsNameChar(ch) THEN
         LET n2 == Append(n, ch) IN
         IF ImplicitHit(cfg, n2) THEN Dispatch(cfg, "write", n2, SubSeq(b, i + 1, Len(b) - 1))
         ELSE ScanName(cfg, b, i + 1, n2)
  ELSE OErr("syntax")

\* line: the bytes of one input line including its LF
LineOutcome(cfg, line) ==
  LET b == StripCR(line) IN
  IF b = <<LF>> THEN [k |-> "blank", c |-> -1, args |-> <<>>, why |-> ""]
  ELSE IF Up(b[1]) # CH_A THEN OErr("syntax")
  ELSE IF Len(b) < 3 \/ Up(b[2]) # CH_T THEN OErr("syntax")
  ELSE ScanName(cfg, b, 3, <<>>)

\* why an Error outcome is an error, as the property that states it
ErrTag(why) == CASE why = "nomatch" -> "C02" [] why = "syntax" -> "C02" [] why = "onlytest" -> "C09"
                 [] why = "unavail" -> "C08" [] why = "long" -> "C06" [] why = "fit" -> "C19" [] OTHER -> "C02"

(***************************************************************************)
(* Automatic texts                                                         *)
(***************************************************************************)
RECURSIVE JoinInfo(_, _)
JoinInfo(vars, i) == IF i > Len(vars) THEN <<>>
                     ELSE (IF i > 1 THEN <<COMMA>> ELSE <<>>) \o Flatten(InfoPieces(vars[i])) \o JoinInfo(vars, i + 1)
\* TEST response text; nl = the newline placed before the description
TestText(cfg, c, nl) ==
  LET cmd == CmdOf(cfg, c)
      t == cmd.name \o <<CH_EQ>> \o JoinInfo(cmd.vars, 1) \o (IF cmd.hasdesc THEN nl \o cmd.desc ELSE <<>>)
  IN [ok |-> \A i \in 1..Len(cmd.vars) : TypeLabel(cmd.vars[i]).ok, t |-> t]

FormsOf(cfg, c) == IF Disabled(cfg, c) THEN <<>>
                   ELSE SelectSeq(IF CmdOf(cfg, c).only_test THEN <<CT_TEST>> ELSE <<CT_RUN, CT_READ, CT_WRITE, CT_TEST>>,
                                  LAMBDA ct : ListHas(cfg, c, ct))
\* the raw blocks of a command list (one per advertised form), nl = newline text
RECURSIVE ListBlocks(_, _, _)
ListBlocks(cfg, c, nl) ==
  IF c >= NCmds(cfg) THEN <<>>
  ELSE LET fs == FormsOf(cfg, c)
           blk(j) == (IF j = 1 THEN nl ELSE <<>>) \o T_AT \o CmdOf(cfg, c).name \o ListSuffix(fs[j]) \o nl
       IN [j \in 1..Len(fs) |-> blk(j)] \o ListBlocks(cfg, c + 1, nl)
=============================================================================
