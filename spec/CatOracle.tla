----------------------------- MODULE CatOracle -----------------------------
(***************************************************************************)
(* Declarative meaning of one input line and of the automatic texts,       *)
(* written without reference to the machine states of CatImpl (no UPDATE / *)
(* SEARCH stepping, no match bits, no cursors): DESIGN.md appendix B.      *)
(* The data-level functions (decoders, formatters) are those of CatImpl;   *)
(* the function-level configurations MC_Fn* compare them with the          *)
(* declarative definitions at the end of this module.                      *)
(***************************************************************************)
EXTENDS CatImpl

EnabledCmd(cfg, c) == ~Disabled(cfg, c)
UpName(cfg, c) == MapUp(CmdOf(cfg, c).name)
AllCmds(cfg) == 0..(NCmds(cfg) - 1)
FullSet(cfg, n) == {c \in AllCmds(cfg) : EnabledCmd(cfg, c) /\ UpName(cfg, c) = n}
PartSet(cfg, n) == {c \in AllCmds(cfg) : EnabledCmd(cfg, c) /\ Len(n) < Len(UpName(cfg, c))
                                          /\ Take(UpName(cfg, c), Len(n)) = n}
MinOf(s) == CHOOSE x \in s : \A y \in s : x <= y
\* the command a typed (upper-cased) name designates, or -1
Resolve(cfg, n) == IF FullSet(cfg, n) # {} THEN MinOf(FullSet(cfg, n))
                   ELSE IF Cardinality(PartSet(cfg, n)) = 1 THEN MinOf(PartSet(cfg, n)) ELSE -1
ImplicitHit(cfg, n) == \E c \in FullSet(cfg, n) : CmdOf(cfg, c).implicit

StripCR(t) == SelectSeq(t, LAMBDA b : b # CR)

OErr(why) == [k |-> "error", c |-> -1, args |-> <<>>, why |-> why]

Dispatch(cfg, kind, n, args) ==
  LET c == Resolve(cfg, n) IN
  IF c = -1 THEN OErr("nomatch")
  ELSE LET cmd == CmdOf(cfg, c) IN
  CASE kind = "run" ->
         IF cmd.only_test THEN OErr("onlytest") ELSE IF ~cmd.hx THEN OErr("unavail")
         ELSE [k |-> "run", c |-> c, args |-> <<>>, why |-> ""]
    [] kind = "read" ->
         IF cmd.only_test THEN OErr("onlytest")
         ELSE IF ~(Len(cmd.name) + 1 < cfg.acap) THEN OErr("fit")
         ELSE IF AccessPossible(cfg, c, ACC_RO) \/ cmd.hr THEN [k |-> "read", c |-> c, args |-> <<>>, why |-> ""]
         ELSE OErr("unavail")
    [] kind = "write" ->
         IF args # <<>> /\ args[1] = CH_Q /\ (cmd.ht \/ Len(cmd.vars) > 0) /\ ~cmd.implicit THEN
            IF args = <<CH_Q>> THEN [k |-> "test", c |-> c, args |-> <<>>, why |-> ""] ELSE OErr("syntax")
         ELSE IF Len(args) >= cfg.acap THEN OErr("long")
         ELSE IF cmd.only_test THEN OErr("onlytest")
         ELSE IF AccessPossible(cfg, c, ACC_WO) THEN [k |-> "write", c |-> c, args |-> args, why |-> "vars"]
         ELSE IF ~cmd.hw THEN OErr("unavail")
         ELSE [k |-> "write", c |-> c, args |-> args, why |-> "raw"]

\* b: the line without CR, ending with LF; i: index of the next byte; n: typed name so far (upper case)
RECURSIVE ScanName(_, _, _, _)
ScanName(cfg, b, i, n) ==
  LET ch == Up(b[i]) IN
  IF ch = LF THEN IF n = <<>> THEN [k |-> "ok", c |-> -1, args |-> <<>>, why |-> ""] ELSE Dispatch(cfg, "run", n, <<>>)
  ELSE IF ch = CH_Q THEN IF n = <<>> THEN OErr("syntax")
                         ELSE IF i + 1 = Len(b) THEN Dispatch(cfg, "read", n, <<>>) ELSE OErr("syntax")
  ELSE IF ch = CH_EQ THEN IF n = <<>> THEN OErr("syntax") ELSE Dispatch(cfg, "write", n, SubSeq(b, i + 1, Len(b) - 1))
  ELSE IF IsNameChar(ch) THEN
         LET n2 == Append(n, ch) IN
         IF ImplicitHit(cfg, n2) THEN Dispatch(cfg, "write", n2, SubSeq(b, i + 1, Len(b) - 1))
         ELSE ScanName(cfg, b, i + 1, n2)
  ELSE OErr("syntax")

\* line: the bytes of one input line including its LF
LineOutcome(cfg, line) ==
  LET b == StripCR(line) IN
  IF b = <<LF>> THEN [k |-> "blank", c |-> -1, args |-> <<>>, why |-> ""]
  ELSE IF Up(b[1]) # CH_A THEN OErr("syntax")
  ELSE IF Len(b) < 3 \/ Up(b[2]) # CH_T THEN OErr("syntax")
  ELSE ScanName(cfg, b, 3, <<>>)

\* why an Error outcome is an error, as the property that states it
ErrTag(why) == CASE why = "nomatch" -> "C02" [] why = "syntax" -> "C02" [] why = "onlytest" -> "C09"
                 [] why = "unavail" -> "C08" [] why = "long" -> "C06" [] why = "fit" -> "C19" [] OTHER -> "C02"

(***************************************************************************)
(* Automatic texts                                                         *)
(***************************************************************************)
RECURSIVE JoinInfo(_, _)
JoinInfo(vars, i) == IF i > Len(vars) THEN <<>>
                     ELSE (IF i > 1 THEN <<COMMA>> ELSE <<>>) \o Flatten(InfoPieces(vars[i])) \o JoinInfo(vars, i + 1)
\* TEST response text; nl = the newline placed before the description
TestText(cfg, c, nl) ==
  LET cmd == CmdOf(cfg, c)
      t == cmd.name \o <<CH_EQ>> \o JoinInfo(cmd.vars, 1) \o (IF cmd.hasdesc THEN nl \o cmd.desc ELSE <<>>)
  IN [ok |-> \A i \in 1..Len(cmd.vars) : TypeLabel(cmd.vars[i]).ok, t |-> t]

FormsOf(cfg, c) == IF Disabled(cfg, c) THEN <<>>
                   ELSE SelectSeq(IF CmdOf(cfg, c).only_test THEN <<CT_TEST>> ELSE <<CT_RUN, CT_READ, CT_WRITE, CT_TEST>>,
                                  LAMBDA ct : ListHas(cfg, c, ct))
\* the raw blocks of a command list (one per advertised form), nl = newline text
RECURSIVE ListBlocks(_, _, _)
ListBlocks(cfg, c, nl) ==
  IF c >= NCmds(cfg) THEN <<>>
  ELSE LET fs == FormsOf(cfg, c)
           blk(j) == (IF j = 1 THEN nl ELSE <<>>) \o T_AT \o CmdOf(cfg, c).name \o ListSuffix(fs[j]) \o nl
       IN [j \in 1..Len(fs) |-> blk(j)] \o ListBlocks(cfg, c + 1, nl)

(***************************************************************************)
(* Declarative meaning of one argument text (C04, C05), written without    *)
(* the character loops of CatImpl: grammar by quantification, value by the *)
(* digit-sequence order, effect on the variable as a function of the       *)
(* whole field.  MC_Fn compares DecodeVar (the fold the machine uses) with *)
(* these definitions over exhaustively enumerated texts.                   *)
(***************************************************************************)
\* the field starting at 0-based position p of the C string t: up to the first comma or the end
FieldEnd(t, p) == LET cs == CStr(t)
                      commas == {i \in (p + 1)..Len(cs) : cs[i] = COMMA}
                  IN IF commas = {} THEN Len(cs) + 1 ELSE CHOOSE i \in commas : \A j \in commas : i <= j
FieldOf(t, p) == LET cs == CStr(t) IN IF p >= Len(cs) THEN <<>> ELSE SubSeq(cs, p + 1, FieldEnd(t, p) - 1)
FieldTerm(t, p) == IF FieldEnd(t, p) <= Len(CStr(t)) THEN 1 ELSE 0

AllDec(f) == \A i \in 1..Len(f) : IsDec(f[i])
DeclIntOk(f) == Len(f) >= 1 /\ LET body == IF f[1] \in {CH_PLUS, CH_MINUS} THEN Tail(f) ELSE f IN Len(body) >= 1 /\ AllDec(body)
DeclIntNeg(f) == f[1] = CH_MINUS
DeclIntMag(f) == StripZeros(IF f[1] \in {CH_PLUS, CH_MINUS} THEN Tail(f) ELSE f)
DeclUIntOk(f) == Len(f) >= 1 /\ AllDec(f)
DeclHexOk(f) == Len(f) >= 3 /\ f[1] = CH_0 /\ Up(f[2]) = CH_X /\ \A i \in 3..Len(f) : IsHexUp(Up(f[i]))
DeclHexMag(f) == StripHexZeros(MapUp(SubSeq(f, 3, Len(f))))

\* numeric variable: [ok, val] - accepted?, canonical stored value
DeclNum(var, f, old) ==
  IF var.type = VT_INT THEN
     IF ~DeclIntOk(f) \/ ~DigitsLE(DeclIntMag(f), D_I64MAX) THEN [ok |-> FALSE, val |-> old]
     ELSE IF var.acc = ACC_RO THEN [ok |-> TRUE, val |-> old]
     ELSE IF var.size \notin {1, 2, 4} THEN [ok |-> FALSE, val |-> old]
     ELSE IF ~DigitsLE(DeclIntMag(f), IF DeclIntNeg(f) THEN IntNegBound(var.size) ELSE IntPosBound(var.size)) THEN [ok |-> FALSE, val |-> old]
     ELSE [ok |-> TRUE, val |-> (IF DeclIntNeg(f) /\ DeclIntMag(f) # <<CH_0>> THEN <<CH_MINUS>> ELSE <<>>) \o DeclIntMag(f)]
  ELSE IF var.type = VT_UINT THEN
     IF ~DeclUIntOk(f) \/ ~DigitsLE(StripZeros(f), D_U64MAX) THEN [ok |-> FALSE, val |-> old]
     ELSE IF var.acc = ACC_RO THEN [ok |-> TRUE, val |-> old]
     ELSE IF var.size \notin {1, 2, 4} \/ ~DigitsLE(StripZeros(f), UIntBound(var.size)) THEN [ok |-> FALSE, val |-> old]
     ELSE [ok |-> TRUE, val |-> StripZeros(f)]
  ELSE
     IF ~DeclHexOk(f) \/ Len(DeclHexMag(f)) > 16 THEN [ok |-> FALSE, val |-> old]
     ELSE IF var.acc = ACC_RO THEN [ok |-> TRUE, val |-> old]
     ELSE IF var.size \notin {1, 2, 4} \/ Len(DeclHexMag(f)) > 2 * var.size THEN [ok |-> FALSE, val |-> old]
     ELSE [ok |-> TRUE, val |-> PadHex(DeclHexMag(f), 2 * var.size)]

\* hex buffer: accepted iff even, non-empty, all hex digits, at most size bytes; then the first n bytes are the decoded ones
DeclBufHex(var, f, old) ==
  LET n == Len(f) \div 2
      ok == Len(f) >= 2 /\ Len(f) % 2 = 0 /\ (\A i \in 1..Len(f) : IsHexUp(Up(f[i]))) /\ n <= var.size
      byte(i) == 16 * HexVal(Up(f[2 * i - 1])) + HexVal(Up(f[2 * i]))
  IN [ok |-> ok, n |-> n, val |-> IF ok /\ var.acc # ACC_RO THEN [i \in 1..var.size |-> IF i <= n THEN byte(i) ELSE old[i]] ELSE old]

\* string: "body" with escapes; decoded = the characters the body denotes
RECURSIVE DeclUnescape(_)
DeclUnescape(b) == IF b = <<>> THEN [ok |-> TRUE, d |-> <<>>]
                   ELSE IF b[1] = BSLASH THEN
                        IF Len(b) < 2 \/ b[2] \notin {BSLASH, QUOTE, CH_n} THEN [ok |-> FALSE, d |-> <<>>]
                        ELSE LET r == DeclUnescape(SubSeq(b, 3, Len(b))) IN
                             [ok |-> r.ok, d |-> <<(IF b[2] = CH_n THEN LF ELSE b[2])>> \o r.d]
                   ELSE IF b[1] = QUOTE THEN [ok |-> FALSE, d |-> <<>>]
                   ELSE LET r == DeclUnescape(Tail(b)) IN [ok |-> r.ok, d |-> <<b[1]>> \o r.d]
DeclString(var, f, old) ==
  LET shaped == Len(f) >= 2 /\ f[1] = QUOTE /\ f[Len(f)] = QUOTE
      u == IF shaped THEN DeclUnescape(SubSeq(f, 2, Len(f) - 1)) ELSE [ok |-> FALSE, d |-> <<>>]
      \* a closing quote must not itself be escaped: the body must unescape completely
      ok == shaped /\ u.ok /\ Len(u.d) <= var.size - 1
  IN [ok |-> ok, n |-> Len(u.d),
      val |-> IF ok /\ var.acc # ACC_RO THEN [i \in 1..var.size |-> IF i <= Len(u.d) THEN u.d[i] ELSE IF i = Len(u.d) + 1 THEN NUL ELSE old[i]] ELSE old]

\* READ text of one variable, declaratively (masking of write-only variables included)
DeclReadText(var, val) ==
  IF var.acc = ACC_WO THEN
     CASE var.type \in {VT_INT, VT_UINT} -> <<CH_0>> [] var.type = VT_HEX -> <<CH_0, 120>> \o Zeros(2 * var.size)
       [] var.type = VT_BUFHEX -> Zeros(2 * var.size) [] OTHER -> <<QUOTE, QUOTE>>
  ELSE CASE var.type \in {VT_INT, VT_UINT} -> val [] var.type = VT_HEX -> <<CH_0, 120>> \o val
         [] var.type = VT_BUFHEX -> HexOfBytes(val) [] OTHER -> <<QUOTE>> \o EscapeStr(CStr(val)) \o <<QUOTE>>
=============================================================================
