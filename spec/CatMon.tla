------------------------------- MODULE CatMon -------------------------------
(***************************************************************************)
(* Property monitors over the observable event alphabet (DESIGN.md 3.4,    *)
(* 3.6).  A monitor state m is a record; MonRecord(m, rec) consumes one    *)
(* trace record (one API call of the real code, or one step of CatImpl in  *)
(* the model-checking configurations).  m.bad collects contradictions of   *)
(* property statements, each tagged with the property id.                  *)
(*                                                                         *)
(* The monitor is a table-driven reference interpreter: from the bytes of  *)
(* a line (LineOutcome), the handler return codes (code table of C10) and  *)
(* the descriptor it predicts which handlers run with which arguments,     *)
(* which values are stored, and which output units each of the two         *)
(* producers owes, and matches the accepted output bytes against them.     *)
(* After a contradiction (or whenever it cannot know what the code should  *)
(* do) it is "lost" and stays silent until the next quiescent point.       *)
(***************************************************************************)
EXTENDS CatOracle

NLSet(nl) == CASE nl = "lf" -> {<<LF>>} [] nl = "crlf" -> {<<CR, LF>>} [] OTHER -> {<<LF>>, <<CR, LF>>}

MonInit(cfg) ==
  [cfg |-> cfg, mem |-> InitMem(cfg), n |-> 0,
   line |-> <<>>, nb |-> FALSE, lcr |-> FALSE, crl |-> FALSE, pend |-> FALSE,
   cph |-> "idle", cc |-> -1, ci |-> 0, ctxt |-> <<>>, cunm |-> <<>>, cpos |-> 0, cws |-> 0, cvr |-> FALSE, cnp |-> 0,
   q |-> <<>>, eph |-> "idle", ec |-> -1, et |-> 0, ei |-> 0, etxt |-> {}, eunm |-> <<>>, evr |-> FALSE,
   eclosing |-> {}, emaybe |-> 0,
   expC |-> <<>>, expE |-> <<>>, H |-> {}, stray |-> <<>>,
   rel |-> 0, relwin |-> FALSE,
   lost |-> FALSE, idleOk |-> FALSE, eunc |-> FALSE, sctx |-> "", ccalled |-> FALSE, ecalled |-> FALSE, lline |-> <<>>, cprev |-> <<-1>>, eprev |-> <<-1>>, lastfail |-> <<-1, -1>>, lout |-> [k |-> "none", c |-> -1, args |-> <<>>, why |-> ""], owed |-> {}, rt |-> FALSE,
   bad |-> <<>>, ulog |-> <<>>, uncl |-> 0, txns |-> 0, units |-> 0, evs |-> 0, last |-> <<>>]

\* at most 4 entries per tag and scenario are kept (a flood of one kind must not hide a contradiction of another kind)
TagCount(bad, p) == Cardinality({i \in 1..Len(bad) : bad[i].p = p})
AddBad(m, p, why) == [m EXCEPT !.bad = IF TagCount(@, p) < 4 /\ Len(@) < 48 THEN Append(@, [p |-> p, why |-> why, at |-> m.n, sid |-> m.cfg.sid]) ELSE @,
                               !.lost = TRUE]
\* the monitor cannot tell what should happen (no property decides it): silent until the next quiescent point
Unclassified(m) == [m EXCEPT !.lost = TRUE, !.uncl = @ + 1,
                                !.ulog = IF Len(@) < 3 THEN Append(@, [at |-> m.n, sid |-> m.cfg.sid, cph |-> m.cph, eph |-> m.eph, cc |-> m.cc, ec |-> m.ec]) ELSE @]

\* The descriptor with every disable flag cleared: if a line means something else there, a disabled command is visible to it (C09)
AllEnabled(cfg) == [cfg EXCEPT !.groups = [g \in 1..Len(cfg.groups) |-> [cfg.groups[g] EXCEPT !.disable = FALSE]],
                               !.cmds = [c \in 1..Len(cfg.cmds) |-> [cfg.cmds[c] EXCEPT !.disable = FALSE]]]
FlagsMatter(m) == m.lline # <<>> /\ LineOutcome(AllEnabled(m.cfg), m.lline) # LineOutcome(m.cfg, m.lline)
C02Tag(m) == IF FlagsMatter(m) THEN "C02,C09" ELSE "C02"

CmdStyle(m) == IF m.crl THEN "crlf" ELSE "lf"
Unit(who, bodies, nl, tag, dep) == [who |-> who, bodies |-> bodies, nl |-> nl, raw |-> FALSE, fin |-> FALSE, exp |-> <<>>, tag |-> tag, last |-> FALSE, dep |-> dep, alt |-> <<>>]
FinalUnit(m, body, tag) == [who |-> "c", bodies |-> {T_OK, T_ERROR}, nl |-> CmdStyle(m), raw |-> FALSE, fin |-> TRUE, exp |-> body, tag |-> tag, last |-> FALSE, dep |-> -1, alt |-> <<>>]
RawUnit(body, tag) == [who |-> "c", bodies |-> {body}, nl |-> "lf", raw |-> TRUE, fin |-> FALSE, exp |-> <<>>, tag |-> tag, last |-> FALSE, dep |-> -1, alt |-> <<>>]

ExpectFinal(m, body, tag) == [m EXCEPT !.expC = Append(@, FinalUnit(m, body, tag)), !.cph = "final"]
PushC(m, u) == [m EXCEPT !.expC = Append(@, u)]
PushE(m, u) == [m EXCEPT !.expE = Append(@, u)]

VarTag(var) == IF var.type \in {VT_INT, VT_UINT, VT_HEX} THEN "C04" ELSE "C05"

(***************************************************************************)
(* Memory mirror.  src = who causes the change ("c" / "e" = inside a       *)
(* callback of that producer's transaction, "top" = between calls).  A     *)
(* change from elsewhere while a READ of the same command is being         *)
(* formatted leaves the monitor without a prediction.                      *)
(***************************************************************************)
CReading(m, c) == m.cc = c /\ m.cph \in {"rfmt", "rwait", "rloop"}
EReading(m, c) == m.ec = c /\ m.et = CT_READ /\ m.eph \in {"rfmt", "rwait", "rloop"}
QueuedDep(m, c) == (\E i \in 1..Len(m.expC) : m.expC[i].dep = c /\ (i > 1 \/ \A h \in m.H : h.who # "c"))
                   \/ (\E i \in 1..Len(m.expE) : m.expE[i].dep = c /\ (i > 1 \/ \A h \in m.H : h.who # "e"))
MemChange(m, c, v, val, src) ==
  LET m1 == [m EXCEPT !.mem = SetMem(m.mem, c, v, val)] IN
  IF m.lost THEN m1
  ELSE IF (src # "c" /\ CReading(m, c)) \/ (src # "e" /\ EReading(m, c)) \/ QueuedDep(m, c) THEN Unclassified(m1)
  ELSE m1

(***************************************************************************)
(* Command producer: formatting of a READ response (one variable at a      *)
(* time, stopping where a variable read callback is due).                  *)
(***************************************************************************)
RECURSIVE AdvRead(_)
AdvRead(m) ==
  LET cfg == m.cfg  c == m.cc  nv == NVars(cfg, c)  i == m.ci IN
  IF i >= nv THEN
     IF CmdOf(cfg, c).hr THEN [m EXCEPT !.cph = "rloop"]
     ELSE ExpectFinal(PushC(m, [Unit("c", {m.ctxt}, CmdStyle(m), "C07", c) EXCEPT !.alt = m.cunm]), T_OK, "C10")
  ELSE LET var == VarOf(cfg, c, i) IN
       IF var.vr /\ ~m.cvr THEN [m EXCEPT !.cph = "rwait"]
       ELSE LET t == ReadVarText(var, m.mem[c + 1][i + 1])
                tu == ReadVarText([var EXCEPT !.acc = ACC_RW], m.mem[c + 1][i + 1])
                txt == m.ctxt \o t.t
                sep == IF i + 1 < nv THEN <<COMMA>> ELSE <<>>
            IN IF ~t.ok \/ ~(Len(txt) < cfg.acap) THEN ExpectFinal(m, T_ERROR, "U")
               ELSE AdvRead([m EXCEPT !.ctxt = txt \o sep, !.cunm = @ \o tu.t \o sep, !.ci = i + 1, !.cvr = FALSE, !.cph = "rfmt"])

StartReadC(m) ==
  LET cfg == m.cfg  c == m.cc  m1 == [m EXCEPT !.ctxt = CmdOf(cfg, c).name \o <<CH_EQ>>, !.cunm = CmdOf(cfg, c).name \o <<CH_EQ>>, !.ci = 0, !.cvr = FALSE] IN
  IF ~(Len(m1.ctxt) < cfg.acap) THEN ExpectFinal(m1, T_ERROR, "U")
  ELSE IF AccessPossible(cfg, c, ACC_RO) THEN AdvRead([m1 EXCEPT !.cph = "rfmt"])
  ELSE IF CmdOf(cfg, c).hr THEN [m1 EXCEPT !.cph = "rloop"]
  ELSE ExpectFinal(m1, T_ERROR, "C08")

StartTestC(m) ==
  LET cfg == m.cfg  c == m.cc  t == TestText(cfg, c, IF m.crl THEN <<CR, LF>> ELSE <<LF>>) IN
  IF ~t.ok \/ ~(Len(t.t) < cfg.acap) THEN ExpectFinal(m, T_ERROR, "C19")
  ELSE IF CmdOf(cfg, c).ht THEN [m EXCEPT !.cph = "tloop", !.ctxt = t.t]
  ELSE ExpectFinal(PushC(m, Unit("c", {t.t}, CmdStyle(m), "C19", -1)), T_OK, "C10")

RECURSIVE PushBlocks(_, _)
PushBlocks(m, blks) ==
  IF blks = <<>> THEN ExpectFinal(m, T_OK, "C10")
  ELSE IF ~(Len(Head(blks)) < m.cfg.acap) THEN ExpectFinal(m, T_ERROR, "C19")
  ELSE PushBlocks(PushC(m, RawUnit(Head(blks), "C19")), Tail(blks))
StartListC(m) == PushBlocks(m, ListBlocks(m.cfg, 0, IF m.crl THEN <<CR, LF>> ELSE <<LF>>))

(***************************************************************************)
(* Command producer: parsing of WRITE arguments                            *)
(***************************************************************************)
\* what follows once variable i has been decoded (stat = its terminator) and its callback, if any, has agreed
AfterVar(m, stat) ==
  LET cfg == m.cfg  c == m.cc  i == m.ci  cmd == CmdOf(cfg, c) IN
  IF i + 1 < NVars(cfg, c) /\ stat > 0 THEN [m EXCEPT !.ci = i + 1, !.cph = "wparse"]
  ELSE IF stat > 0 THEN ExpectFinal(m, T_ERROR, "U")
  ELSE IF cmd.need_all /\ i + 1 # NVars(cfg, c) THEN ExpectFinal(m, T_ERROR, "U")
  ELSE IF ~cmd.hw THEN ExpectFinal(m, T_OK, VarTag(VarOf(cfg, c, i)))
  ELSE [m EXCEPT !.cph = "wloop", !.cnp = i + 1]

RECURSIVE AdvWrite(_)
AdvWrite(m) ==
  IF m.cph # "wparse" \/ m.lost THEN m
  ELSE LET cfg == m.cfg  c == m.cc  i == m.ci
           var == VarOf(cfg, c, i)
           old == m.mem[c + 1][i + 1]
           d == DecodeVar(m.ctxt, m.cpos, var, old)
           m0 == IF d.val # old THEN MemChange(m, c, i, d.val, "c") ELSE m
           m1 == [m0 EXCEPT !.cpos = d.pos, !.owed = IF d.val # old THEN @ \cup {<<c, i>>} ELSE @]
       IN IF m1.lost THEN m1 ELSE IF d.stat < 0 THEN ExpectFinal(m1, T_ERROR, VarTag(var))
          ELSE IF var.vw THEN [m1 EXCEPT !.cph = "wwait", !.cws = d.ws, !.cnp = d.stat]
          ELSE AdvWrite(AfterVar(m1, d.stat))

\* a line's LF has been consumed: start the transaction its bytes call for
StartTxn(m, o) ==
  LET m0 == [m EXCEPT !.pend = TRUE, !.txns = @ + 1, !.ccalled = FALSE] IN
  CASE o.k = "ok" -> ExpectFinal(m0, T_OK, "C01")
    [] o.k = "error" -> ExpectFinal(m0, T_ERROR, ErrTag(o.why))
    [] o.k = "run" -> [m0 EXCEPT !.cph = "run", !.cc = o.c]
    [] o.k = "read" -> StartReadC([m0 EXCEPT !.cc = o.c])
    [] o.k = "test" -> StartTestC([m0 EXCEPT !.cc = o.c])
    [] o.k = "write" ->
         IF o.why = "vars" THEN AdvWrite([m0 EXCEPT !.cph = "wparse", !.cc = o.c, !.ci = 0, !.cpos = 0, !.ctxt = o.args])
         ELSE [m0 EXCEPT !.cph = "wloop", !.cc = o.c, !.ctxt = o.args, !.cnp = 0]
    [] OTHER -> m0

(***************************************************************************)
(* Event producer                                                          *)
(***************************************************************************)
EvDone(m) == [m EXCEPT !.eclosing = IF m.ec >= 0 THEN @ \cup {<<m.ec, m.et>>} ELSE @, !.eph = "idle", !.ec = -1, !.ecalled = FALSE]

RECURSIVE AdvEvRead(_)
RECURSIVE StartEv(_)

EvUnit(m, bodies, last, tag, dep) == [Unit("e", bodies, "any", tag, dep) EXCEPT !.last = last]

AdvEvRead(m) ==
  LET cfg == m.cfg  c == m.ec  nv == NVars(cfg, c)  i == m.ei  txt0 == CHOOSE t \in m.etxt : TRUE IN
  IF i >= nv THEN
     IF CmdOf(cfg, c).hr THEN [m EXCEPT !.eph = "rloop"]
     ELSE [PushE(m, [EvUnit(m, m.etxt, TRUE, "C07", c) EXCEPT !.alt = m.eunm]) EXCEPT !.eph = "unit"]
  ELSE LET var == VarOf(cfg, c, i) IN
       IF var.vr /\ ~m.evr THEN [m EXCEPT !.eph = "rwait"]
       ELSE LET t == ReadVarText(var, m.mem[c + 1][i + 1])
                tu == ReadVarText([var EXCEPT !.acc = ACC_RW], m.mem[c + 1][i + 1])
                txt == txt0 \o t.t
                sep == IF i + 1 < nv THEN <<COMMA>> ELSE <<>>
            IN IF ~t.ok \/ ~(Len(txt) < cfg.ucap) THEN StartEv(EvDone(m))
               ELSE AdvEvRead([m EXCEPT !.etxt = {txt \o sep}, !.eunm = @ \o tu.t \o sep, !.ei = i + 1, !.evr = FALSE, !.eph = "rfmt"])

\* (re)start the formatting of the event in progress
EvFormat(m) ==
  LET cfg == m.cfg  c == m.ec  cmd == CmdOf(cfg, c)  head == cmd.name \o <<CH_EQ>> IN
  IF m.et = CT_READ THEN
     IF ~(Len(head) < cfg.ucap) THEN StartEv(EvDone(m))
     ELSE IF AccessPossible(cfg, c, ACC_RO) THEN AdvEvRead([m EXCEPT !.etxt = {head}, !.eunm = head, !.ei = 0, !.evr = FALSE, !.eph = "rfmt"])
     ELSE IF cmd.hr THEN [m EXCEPT !.etxt = {head}, !.eunm = head, !.eph = "rloop"]
     ELSE StartEv(EvDone(m))
  ELSE LET ta == TestText(cfg, c, <<LF>>)  tb == TestText(cfg, c, <<CR, LF>>)
           fa == ta.ok /\ Len(ta.t) < cfg.ucap  fb == tb.ok /\ Len(tb.t) < cfg.ucap
       IN IF fa # fb THEN Unclassified(m)
          ELSE IF ~fa THEN StartEv(EvDone(m))
          ELSE IF cmd.ht THEN [m EXCEPT !.etxt = {ta.t, tb.t}, !.eph = "tloop"]
          ELSE [PushE(m, EvUnit(m, {ta.t, tb.t}, TRUE, "C19", -1)) EXCEPT !.etxt = {ta.t, tb.t}, !.eph = "unit"]

StartEv(m) ==
  IF m.eph # "idle" \/ m.q = <<>> \/ m.lost THEN m
  ELSE LET it == Head(m.q) IN
       EvFormat([m EXCEPT !.q = Tail(@), !.ec = it[1], !.et = it[2], !.ecalled = FALSE, !.emaybe = IF @ < m.cfg.qcap THEN @ + 1 ELSE @, !.evs = @ + 1])

(***************************************************************************)
(* Queue bookkeeping for trigger / is_full / is_buffered                    *)
(* eclosing: events the monitor regards as finished while the event machine *)
(* may still be winding them up - or has not even started, when they end    *)
(* without any observable sign and the monitor ran ahead; emptied when a    *)
(* handler or variable callback of a later event is seen (the machine is    *)
(* strictly sequential) and at quiescence.  A completed output unit is NOT  *)
(* such a sign: it may belong to an event older than the silent ones.       *)
(***************************************************************************)
TriggerRet(m, c, t, ret) ==
  IF m.lost THEN m
  ELSE IF m.eunc THEN (IF ret = S_OK THEN StartEv([m EXCEPT !.q = Append(@, <<c, t>>), !.idleOk = FALSE]) ELSE m)
  ELSE IF ret = S_OK THEN
          IF Len(m.q) >= m.cfg.qcap THEN AddBad(m, "C13", "trigger accepted although the queue is full")
          ELSE StartEv([m EXCEPT !.q = Append(@, <<c, t>>), !.idleOk = FALSE])
  ELSE IF ret = S_FULL THEN
          IF Len(m.q) + m.emaybe < m.cfg.qcap THEN AddBad(m, "C13", "trigger refused although the queue has room") ELSE m
  ELSE m
FullRet(m, ret) ==
  IF m.lost \/ m.eunc THEN m
  ELSE IF ret = S_OK /\ Len(m.q) >= m.cfg.qcap THEN AddBad(m, "C13", "is_full says room, queue is full")
  ELSE IF ret = S_FULL /\ Len(m.q) + m.emaybe < m.cfg.qcap THEN AddBad(m, "C13", "is_full says full, queue has room")
  ELSE m
InQ(m, c, t) == \E i \in 1..Len(m.q) : m.q[i][1] = c /\ (t = CT_NONE \/ m.q[i][2] = t)
InProg(m, c, t) == m.eph # "idle" /\ m.ec = c /\ (t = CT_NONE \/ m.et = t)
Closing(m, c, t) == \E x \in m.eclosing : x[1] = c /\ (t = CT_NONE \/ x[2] = t)
BufferedRet(m, c, t, ret) ==
  IF m.lost \/ m.eunc THEN m
  ELSE IF ret = S_OK /\ (InQ(m, c, t) \/ (InProg(m, c, t) /\ m.emaybe = 0)) THEN AddBad(m, "C13", <<"event pending but reported as not buffered", c, t, m.q, m.eph, m.ec, m.emaybe>>)
  ELSE IF ret = S_BUSY /\ ~InQ(m, c, t) /\ ~InProg(m, c, t) /\ ~Closing(m, c, t) THEN AddBad(m, "C13", <<"event reported as buffered but none is pending", c, t>>)
  ELSE m
ProcRet(m, fsm, ret) ==
  IF m.lost \/ m.eunc \/ fsm # 1 THEN m
  ELSE IF m.eph # "idle" /\ ret = m.ec /\ ~(\E x \in m.eclosing : x[1] = ret) THEN [m EXCEPT !.emaybe = 0]
          \* the observer names the event in progress (and no earlier event on that command can still be closing): it has left the queue
  ELSE IF ret = -1 \/ (m.eph # "idle" /\ ret = m.ec) \/ (\E x \in m.eclosing : x[1] = ret) THEN m
  ELSE AddBad(m, "C13", "processed command is not an event in progress")

(***************************************************************************)
(* Hold                                                                    *)
(***************************************************************************)
ReleaseReq(m, status) == IF m.cph = "held" THEN [m EXCEPT !.rel = IF status = S_OK THEN 1 ELSE -1, !.idleOk = FALSE] ELSE m
MonHoldExit(m, status, ret) ==
  IF m.lost THEN m
  ELSE IF m.cph = "held" THEN
          IF ret = S_OK THEN ReleaseReq(m, status)
          ELSE IF ret = S_NOT_HOLD THEN AddBad(m, "C14", "hold_exit refused during a hold") ELSE m
  ELSE IF m.relwin THEN (IF ret = S_OK THEN Unclassified(m) ELSE m)
  ELSE IF ret = S_OK THEN AddBad(m, "C14", "hold_exit accepted outside a hold") ELSE m
IsHoldRet(m, ret) ==
  IF m.lost \/ ret < 0 THEN m
  ELSE IF m.cph = "held" /\ m.rel = 0 /\ ret # S_HOLD THEN AddBad(m, "C14,C18", "is_hold does not report a suspended command")
  ELSE IF m.cph # "held" /\ ~m.relwin /\ ret = S_HOLD THEN AddBad(m, "C14,C18", "is_hold reports a hold, nothing is suspended")
  ELSE m
PartialLine(m) == m.nb
IsBusyRet(m, ret) ==
  IF ret < 0 THEN m
  ELSE IF m.lost THEN
       \* the line tracker is exact even while the monitor is lost: a line whose LF has not been consumed is partially received
       IF ret = S_OK /\ PartialLine(m) THEN [m EXCEPT !.bad = IF TagCount(@, "C18") < 4 /\ Len(@) < 48 THEN Append(@, [p |-> "C18", why |-> "is_busy says idle while a command line is partially received", at |-> m.n, sid |-> m.cfg.sid]) ELSE @]
       ELSE m
  ELSE IF ret = S_OK /\ (PartialLine(m) \/ m.pend \/ m.H # {}) THEN AddBad(m, "C18", "is_busy says idle while work is in flight")
  ELSE IF ret # S_OK /\ m.idleOk /\ ~PartialLine(m) THEN AddBad(m, "C18", "is_busy says busy although quiescent")
  ELSE m
\* consumption of a release request by the command machine (at the end of a service call)
ConsumeRelease(m) ==
  IF m.cph = "held" /\ m.rel # 0 /\ ~m.lost
  THEN [ExpectFinal(m, IF m.rel = 1 THEN T_OK ELSE T_ERROR, "C14") EXCEPT !.rel = 0, !.relwin = TRUE]
  ELSE m

(***************************************************************************)
(* Output matcher                                                          *)
(***************************************************************************)
HypsOf(u) ==
  IF u.raw THEN {[who |-> u.who, r |-> b, p |-> 0, body |-> b, lo |-> 0, hi |-> Len(b)] : b \in u.bodies}
  ELSE {[who |-> u.who, r |-> x[1] \o x[2] \o x[3], p |-> 0, body |-> x[2], lo |-> Len(x[1]), hi |-> Len(x[1]) + Len(x[2])]
          : x \in NLSet(u.nl) \X u.bodies \X NLSet(u.nl)}
StartHyps(m) == (IF m.expC # <<>> THEN HypsOf(Head(m.expC)) ELSE {}) \cup (IF m.expE # <<>> THEN HypsOf(Head(m.expE)) ELSE {})
CanAdv(h, b) == h.p < Len(h.r) /\ h.r[h.p + 1] = b

FinalDone(m, u, body) ==
  LET m1 == [m EXCEPT !.pend = FALSE, !.cph = "idle", !.cc = -1, !.crl = FALSE, !.relwin = FALSE, !.rel = 0]
      m2 == IF body # u.exp /\ m.rt THEN AddBad(m1, "C07", <<"READ output fed back as WRITE arguments was answered", body>>)
            ELSE IF body # u.exp /\ u.tag # "U" THEN AddBad(m1, IF u.tag = "C02" THEN C02Tag(m) ELSE u.tag, <<"result code", body, "expected", u.exp>>)
            ELSE IF body # u.exp THEN Unclassified(m1) ELSE m1
      m3 == IF m2.owed # {} /\ ~m2.lost THEN
               LET x == CHOOSE x \in m2.owed : TRUE IN AddBad(m2, VarTag(VarOf(m.cfg, x[1], x[2])), <<"accepted value was not stored", x>>)
            ELSE m2
      m4 == IF m3.rt /\ body # T_OK /\ ~m3.lost THEN AddBad(m3, "C07", "READ output was refused as WRITE argument") ELSE m3
  IN [m4 EXCEPT !.owed = {}]

Commit(m, h) ==
  LET u == IF h.who = "c" THEN Head(m.expC) ELSE Head(m.expE)
      m1 == IF h.who = "c" THEN [m EXCEPT !.expC = Tail(@), !.H = {}, !.units = @ + 1] ELSE [m EXCEPT !.expE = Tail(@), !.H = {}, !.units = @ + 1, !.emaybe = 0]
  IN IF u.fin THEN FinalDone(m1, u, h.body)
     ELSE IF h.who = "e" /\ u.last THEN StartEv(EvDone(m1))
     ELSE m1

InNl(h) == h.p < h.lo \/ h.p >= h.hi
OtherStarts(m, who, b) == LET q == IF who = "c" THEN m.expE ELSE m.expC IN
                          q # <<>> /\ \E h \in HypsOf(Head(q)) : CanAdv(h, b)
MatchByte(m, b) ==
  IF m.lost THEN (IF m.stray # <<>> /\ Len(m.stray) < 12 THEN [m EXCEPT !.stray = Append(@, b)] ELSE m)
  ELSE LET fresh == m.H = {}
           H0 == IF fresh THEN StartHyps(m) ELSE m.H
           H1 == {[h EXCEPT !.p = @ + 1] : h \in {h \in H0 : CanAdv(h, b)}}
       IN IF H1 = {} THEN
             IF fresh /\ m.expC = <<>> /\ m.expE = <<>> THEN
                  [m EXCEPT !.lost = TRUE, !.stray = <<b>>,
                            !.sctx = IF m.pend /\ m.cph \in {"run", "rloop", "tloop", "wloop"} THEN (IF m.ccalled THEN "C10" ELSE C02Tag(m))
                                     ELSE IF m.eph \in {"rloop", "tloop"} THEN "E" ELSE ""]
             ELSE IF fresh THEN
                  IF m.expC # <<>> /\ m.expE = <<>> /\ b \in {CR, LF} THEN AddBad(m, "C20", "newline style of a command response")
                  ELSE AddBad(m, IF m.expC # <<>> /\ m.expE # <<>> THEN "C11" ELSE IF m.expC # <<>> THEN Head(m.expC).tag ELSE Head(m.expE).tag,
                              <<"output does not start an owed unit", b>>)
             ELSE LET h == CHOOSE h \in H0 : TRUE
                      u == IF h.who = "c" THEN Head(m.expC) ELSE Head(m.expE)
                  IN IF OtherStarts(m, h.who, b) THEN
                        AddBad(m, IF m.expC # <<>> /\ Head(m.expC).fin /\ Head(m.expC).tag = "C14" THEN "C11,C14" ELSE "C11", <<"unit interrupted by the other producer", b>>)
                     ELSE IF h.who = "c" /\ InNl(h) /\ b \in {CR, LF} /\ \A g \in H0 : g.who = "c" THEN AddBad(m, "C20", "newline style of a command response")
                     ELSE IF u.tag = "U" THEN Unclassified(m)
                     ELSE LET k == h.p - h.lo
                              disclosed == u.alt # <<>> /\ k >= 0 /\ k < Len(u.alt) /\ Take(u.alt, k) = Take(h.body, k) /\ u.alt[k + 1] = b
                              m9 == AddBad(m, IF disclosed THEN "C08" ELSE u.tag, <<"unit differs from what is owed at offset", h.p, b>>)
                          IN \* the unit is closed before its payload is complete: besides the property that owns the text, C11 ("no unit is truncated")
                             IF b \in {CR, LF} /\ ~InNl(h) /\ ~disclosed THEN AddBad(m9, "C11", <<"unit truncated at offset", h.p>>) ELSE m9
          ELSE LET done == {h \in H1 : h.p = Len(h.r)} IN
               IF done = {} THEN [m EXCEPT !.H = H1]
               ELSE LET dc == {h \in done : h.who = "c"}  de == {h \in done : h.who = "e"}
                        alive == H1 \ done
                    IN IF dc # {} /\ de # {} THEN
                          \* identical units owed by both producers: which one this was cannot be told, so nothing can be said about the event queue until the next quiescent point
                          [Commit(m, CHOOSE h \in dc : TRUE) EXCEPT !.eclosing = IF m.ec >= 0 THEN @ \cup {<<m.ec, m.et>>} ELSE @, !.emaybe = 1, !.eunc = TRUE]
                       ELSE LET h == CHOOSE h \in done : TRUE IN
                            IF \E g \in alive : g.who # h.who THEN Unclassified(m)
                            ELSE Commit(m, h)

\* stray output seen while nothing was owed: a result code nobody asked for, or something else
StrayVerdict(m) ==
  IF m.stray = <<>> THEN m
  ELSE LET s == m.stray
           isCode == \E nl \in {<<LF>>, <<CR, LF>>} : \E t \in {T_OK, T_ERROR} : Len(s) >= Len(nl \o t) /\ SubSeq(s, 1, Len(nl \o t)) = nl \o t
           evctx == m.eclosing # {} \/ m.eph # "idle"      \* an event was processed since the last quiescent point: C10 says events emit no result code
       IN [AddBad(m, IF isCode /\ m.sctx \notin {"", "E"} THEN m.sctx
                     ELSE IF ~isCode /\ m.sctx = "E" THEN "C10,C13"       \* the event's handler was due; output appeared instead
                     ELSE IF m.cph = "held" /\ isCode THEN "C14,C01" ELSE IF isCode /\ evctx THEN "C01,C10" ELSE IF isCode THEN "C01" ELSE "C11",
                  IF isCode /\ m.sctx \notin {"", "E"} THEN <<"the line was answered although the handler it calls for had not run / had asked to be called again", s>>
                  ELSE IF ~isCode /\ m.sctx = "E" THEN <<"output although the handler of the event in progress had not run", s>>
                  ELSE <<"output that nothing owes", s>>) EXCEPT !.stray = <<>>, !.sctx = ""]

(***************************************************************************)
(* Events                                                                  *)
(***************************************************************************)
\* an input byte handed to the parser
OnRd(m, b) ==
  IF b = -1 THEN m
  ELSE LET m0 == [m EXCEPT !.idleOk = FALSE]
           m1 == IF m0.lost THEN m0
                 ELSE IF m0.cph = "held" /\ m0.rel = 0 THEN AddBad(m0, "C14,C01", "input consumed while the command is held")
                 ELSE IF m0.pend THEN AddBad(m0, "C01", "input consumed before the result code of the previous line was complete")
                 ELSE m0
       IN IF b = LF THEN
             LET full == Append(m1.line, LF)
                 m2 == [m1 EXCEPT !.line = <<>>, !.nb = FALSE, !.lcr = FALSE]
                 o == LineOutcome(m2.cfg, full)
             IN IF m1.nb /\ ~m2.lost THEN StartTxn([m2 EXCEPT !.crl = m1.lcr, !.lout = o, !.lline = full], o)
                ELSE IF m1.nb THEN [m2 EXCEPT !.lout = o, !.lline = full] ELSE m2
          ELSE [m1 EXCEPT !.line = Append(@, b), !.nb = @ \/ b # CR, !.lcr = @ \/ (b = CR /\ m1.nb)]

RECURSIVE MonNested(_, _, _)
MonApiSimple(m, f, a, ret) ==
  CASE f = "trigger" -> TriggerRet(m, a[1], a[2], ret)
    [] f = "hold_exit" -> MonHoldExit(m, a[1], ret)
    [] f = "is_busy" -> IsBusyRet(m, ret)
    [] f = "is_hold" -> IsHoldRet(m, ret)
    [] f = "is_full" -> FullRet(m, ret)
    [] f = "is_buffered" -> BufferedRet(m, a[1], a[2], ret)
    [] f = "processed" -> ProcRet(m, a[1], ret)
    [] OTHER -> m
MonNested(m, ins, src) ==
  IF ins = <<>> THEN m
  ELSE LET e == Head(ins)
           m1 == CASE e.k = "api" -> MonApiSimple(m, e.f, e.a, e.ret)
                   [] e.k = "setmem" -> MemChange(m, e.c, e.v, e.val, src)
                   [] e.k = "flag" -> [m EXCEPT !.cfg = SetFlag(m.cfg, e)]
                   [] OTHER -> m
       IN MonNested(m1, Tail(ins), src)

\* handler of the command producer
OnCmdC(m, e) ==
  IF m.cph \notin {"run", "rloop", "tloop", "wloop"} THEN
     IF m.cph = "idle" THEN AddBad(m, C02Tag(m), <<"handler invoked without a command line", e.kind, e.c>>)
     ELSE IF m.cph = "held" THEN AddBad(m, "C14", "handler invoked while the command is held")
     ELSE IF m.cph = "final" THEN
          IF Len(m.expC) > 0 /\ m.expC[Len(m.expC)].fin /\ m.expC[Len(m.expC)].tag # "U"
          THEN AddBad(m, IF m.expC[Len(m.expC)].tag = "C02" THEN C02Tag(m) ELSE m.expC[Len(m.expC)].tag, <<"handler invoked although the line is to be refused / is finished", e.kind, e.c>>)
          ELSE Unclassified(m)
     ELSE IF e.c # m.cc THEN AddBad(m, "C02", <<"handler of another command", e.c, m.cc>>)
     ELSE Unclassified(m)
  ELSE LET want == CASE m.cph = "run" -> "run" [] m.cph = "rloop" -> "read" [] m.cph = "tloop" -> "test" [] OTHER -> "write" IN
  IF e.c # m.cc \/ e.kind # want THEN
     AddBad(m, IF Disabled(m.cfg, e.c) \/ (CmdOf(m.cfg, e.c).only_test /\ e.kind # "test") THEN "C09" ELSE C02Tag(m),
            <<"wrong handler", e.kind, e.c, "expected", want, m.cc>>)
  ELSE LET argsOk == CASE want = "run" -> TRUE
                       [] want = "write" -> e.data = m.ctxt /\ e.size = Len(m.ctxt) /\ e.nul /\ e.aux = m.cnp
                       [] OTHER -> e.data = m.ctxt /\ e.size = Len(m.ctxt) /\ e.aux = m.cfg.acap
       IN IF ~argsOk THEN AddBad(m, IF want \in {"read", "test"} /\ e.data = m.cprev THEN "C06,C10"
                                    \* a re-invocation (after NEXT / DATA_NEXT) owes the freshly formatted text: the code table (C10) as well as the formatter
                                    ELSE IF want = "read" /\ e.size = Len(e.data) /\ e.aux = m.cfg.acap THEN (IF e.data = m.cunm THEN "C08" ELSE IF m.ccalled THEN "C07,C10" ELSE "C07")
                                    ELSE IF want = "test" /\ e.size = Len(e.data) /\ e.aux = m.cfg.acap THEN (IF m.ccalled THEN "C19,C10" ELSE "C19")
                                    ELSE IF m.ccalled /\ want \in {"read", "test"} THEN "C06,C10" ELSE "C06",
                                 <<"handler arguments", e.kind, e.data, e.size, e.aux, "expected", m.ctxt, m.cnp>>)
  ELSE LET m1 == MonNested([m EXCEPT !.ccalled = TRUE, !.cprev = IF want \in {"read", "test"} /\ e.ret \in {RET_NEXT, RET_DATA_NEXT} /\ e.data2 # e.data THEN e.data2 ELSE <<-1>>], e.in, "c")
           r == e.ret
           dataU == Unit("c", {e.data2}, CmdStyle(m), "C10", -1)
       IN IF m1.lost THEN m1
          ELSE IF r = RET_HOLD THEN [m1 EXCEPT !.cph = "held", !.rel = 0]
          ELSE IF want \in {"run", "write"} THEN
                 IF r \in {RET_OK, RET_DATA_OK} THEN ExpectFinal(m1, T_OK, "C10")
                 ELSE IF r \in {RET_NEXT, RET_DATA_NEXT} THEN m1
                 ELSE IF r = RET_LIST /\ want = "run" THEN StartListC(m1)
                 ELSE ExpectFinal(m1, T_ERROR, "C10")
          ELSE IF r = RET_OK THEN ExpectFinal(m1, T_OK, "C10")
          ELSE IF r = RET_DATA_OK THEN ExpectFinal(PushC(m1, dataU), T_OK, "C10")
          ELSE IF r = RET_DATA_NEXT THEN IF want = "read" THEN StartReadC(PushC(m1, dataU)) ELSE StartTestC(PushC(m1, dataU))
          ELSE IF r = RET_NEXT THEN IF want = "read" THEN StartReadC(m1) ELSE StartTestC(m1)
          ELSE IF r = RET_HOLD_EXIT_OK THEN ExpectFinal(m1, T_OK, "C10")
          ELSE IF r = RET_LIST /\ want = "test" THEN StartListC(m1)
          ELSE ExpectFinal(m1, T_ERROR, "C10")

\* handler of the event producer
OnCmdE(m, e) ==
  IF m.eunc /\ (m.eph \notin {"rloop", "tloop"} \/ e.c # m.ec \/ e.kind # (IF m.eph = "rloop" THEN "read" ELSE "test")) THEN
     \* after an ambiguous match (identical units owed by both producers) the event producer may be one event further than assumed
     Unclassified(m)
  ELSE IF m.eph \notin {"rloop", "tloop"} THEN
     \* a handler that has just returned a terminal code (its event is closing) and is invoked again: the code table (C10) as well as exactly-once (C13)
     AddBad(m, IF Closing(m, e.c, CT_NONE) THEN "C10,C13" ELSE "C13", <<"event handler invoked but no event is due", e.kind, e.c>>)
  ELSE LET want == IF m.eph = "rloop" THEN "read" ELSE "test" IN
  IF e.c # m.ec \/ e.kind # want THEN AddBad(m, "C13", <<"event handler out of order", e.kind, e.c, "expected", want, m.ec>>)
  ELSE IF ~(e.data \in m.etxt /\ e.size = Len(e.data) /\ e.aux = m.cfg.ucap) THEN
       AddBad(m, IF e.data = m.eprev THEN "C06,C10"
                 ELSE IF e.size = Len(e.data) /\ e.aux = m.cfg.ucap THEN (IF want = "read" THEN (IF e.data = m.eunm THEN "C08" ELSE IF m.ecalled THEN "C07,C10" ELSE "C07")
                                                                          ELSE IF m.ecalled THEN "C19,C10" ELSE "C19")
                 ELSE IF m.ecalled THEN "C06,C10" ELSE "C06",
              <<"event handler arguments", e.data, e.size, e.aux, "expected", m.etxt>>)
  ELSE LET m0 == [m EXCEPT !.emaybe = 0, !.eclosing = {}, !.ecalled = TRUE, !.eprev = IF e.ret \in {RET_NEXT, RET_DATA_NEXT} /\ e.data2 # e.data THEN e.data2 ELSE <<-1>>]
           m1 == MonNested(m0, e.in, "e")
           r == e.ret
           dataU(last) == EvUnit(m, {e.data2}, last, "C10", -1)
       IN IF m1.lost THEN m1
          ELSE IF r = RET_HOLD THEN Unclassified(m1)             \* outside the supported domain (DESIGN 5)
          ELSE IF r = RET_DATA_OK THEN [PushE(m1, dataU(TRUE)) EXCEPT !.eph = "unit"]
          ELSE IF r = RET_DATA_NEXT THEN EvFormat(PushE(m1, dataU(FALSE)))
          ELSE IF r = RET_NEXT THEN EvFormat(m1)
          ELSE IF r = RET_HOLD_EXIT_OK THEN StartEv(EvDone(ReleaseReq(m1, S_OK)))
          ELSE IF r = RET_HOLD_EXIT_ERROR THEN StartEv(EvDone(ReleaseReq(m1, S_ERROR)))
          ELSE StartEv(EvDone(m1))

OnVr(m, e) ==
  LET forC == m.cph = "rwait" /\ m.cc = e.c /\ m.ci = e.v
      forE == m.eph = "rwait" /\ m.ec = e.c /\ m.ei = e.v
  IN IF forC /\ forE THEN Unclassified(m)
     ELSE IF forC THEN
          LET m1 == MonNested(m, e.in, "c") IN
          IF m1.lost THEN m1 ELSE IF e.r # 0 THEN ExpectFinal([m1 EXCEPT !.lastfail = <<e.c, e.v>>], T_ERROR, "C10") ELSE AdvRead([m1 EXCEPT !.cvr = TRUE])
     ELSE IF forE THEN
          LET m1 == MonNested([m EXCEPT !.emaybe = 0, !.eclosing = {}], e.in, "e") IN
          IF m1.lost THEN m1 ELSE IF e.r # 0 THEN StartEv(EvDone([m1 EXCEPT !.lastfail = <<e.c, e.v>>])) ELSE AdvEvRead([m1 EXCEPT !.evr = TRUE])
     ELSE IF m.lastfail = <<e.c, e.v>> THEN AddBad(m, "C10", <<"variable callback failed but the processing was not aborted", e.c, e.v>>)
     ELSE IF m.eunc THEN Unclassified(m)
     ELSE IF e.c # m.cc /\ e.c # m.ec THEN
          AddBad(m, IF Disabled(m.cfg, e.c) THEN "C09" ELSE "C02", <<"variable callback of a command that is not being processed", e.c, e.v>>)
     ELSE Unclassified(m)

OnVw(m, e) ==
  IF m.cph = "wwait" /\ m.cc = e.c /\ m.ci = e.v THEN
     LET var == VarOf(m.cfg, e.c, e.v) IN
     IF var.type \in {VT_BUFHEX, VT_STRING} /\ e.ws # m.cws THEN AddBad(m, "C05", <<"write callback told a wrong length", e.ws, m.cws>>)
     ELSE LET m1 == MonNested(m, e.in, "c") IN
          IF m1.lost THEN m1 ELSE IF e.r # 0 THEN ExpectFinal(m1, T_ERROR, "C10") ELSE AdvWrite(AfterVar(m1, m1.cnp))
  ELSE IF e.c # m.cc THEN AddBad(m, IF Disabled(m.cfg, e.c) THEN "C09" ELSE "C02", <<"variable write callback of a command that is not being written", e.c, e.v>>)
  ELSE IF m.cph = "final" /\ Len(m.expC) > 0 /\ m.expC[Len(m.expC)].tag \in {"C04", "C05", "C08", "C09", "C06"} THEN
       AddBad(m, m.expC[Len(m.expC)].tag, <<"write callback although the argument is to be refused", e.c, e.v>>)
  ELSE Unclassified(m)

\* the harness saw the storage of variable (c, v) change across the call
OnMem(m, e) ==
  LET var == VarOf(m.cfg, e.c, e.v)
      m1 == [m EXCEPT !.mem = SetMem(m.mem, e.c, e.v, e.after), !.owed = @ \ {<<e.c, e.v>>}]
  IN IF m.lost THEN m1
     ELSE IF <<e.c, e.v>> \in m.owed THEN
          IF e.after = m.mem[e.c + 1][e.v + 1] THEN m1
          ELSE AddBad(m1, VarTag(var), <<"stored value differs from the argument's value", e.c, e.v, e.after, m.mem[e.c + 1][e.v + 1]>>)
     ELSE IF var.acc = ACC_RO THEN AddBad(m1, "C08", <<"read-only variable modified", e.c, e.v>>)
     ELSE IF Disabled(m.cfg, e.c) THEN AddBad(m1, "C09", <<"variable of a disabled command modified", e.c, e.v>>)
     ELSE IF m.rt THEN AddBad(m1, "C07", <<"round trip changed a value", e.c, e.v, e.before, e.after>>)
     ELSE IF m.lout.k = "error" /\ m.lout.why = "long" THEN AddBad(m1, IF VarTag(var) = "C04" THEN "C06,C04" ELSE "C06,C05", <<"variable modified by a line that does not fit the working buffer", e.c, e.v, e.after>>)
     ELSE IF e.c # m.cc THEN AddBad(m1, "C02", <<"variable of another command modified", e.c, e.v>>)
     ELSE AddBad(m1, VarTag(var), <<"variable modified although its argument is not acceptable", e.c, e.v, e.after>>)

\* while lost only the mirrors are kept up to date
RECURSIVE MonNestedLost(_, _)
MonNestedLost(m, ins) ==
  IF ins = <<>> THEN m
  ELSE LET e == Head(ins)
           m1 == CASE e.k = "setmem" -> [m EXCEPT !.mem = SetMem(m.mem, e.c, e.v, e.val)]
                   [] e.k = "flag" -> [m EXCEPT !.cfg = SetFlag(m.cfg, e)]
                   [] OTHER -> m
       IN MonNestedLost(m1, Tail(ins))

\* Even while lost, a handler of the command machine must belong to the line whose LF was consumed last
\* (C02 is a statement about lines, and the line tracker and the descriptor mirror are always up to date).
LightC02(m, e) ==
  LET o == m.lout
      want == CASE o.k = "run" -> "run" [] o.k = "read" -> "read" [] o.k = "write" -> "write" [] o.k = "test" -> "test" [] OTHER -> "none"
  IN IF want = "none" \/ e.c # o.c \/ e.kind # want
     THEN [m EXCEPT !.bad = IF TagCount(@, C02Tag(m)) < 4 /\ Len(@) < 48 THEN Append(@, [p |-> C02Tag(m), why |-> <<"handler does not belong to the last command line", e.kind, e.c, o.k, o.c>>, at |-> m.n, sid |-> m.cfg.sid]) ELSE @]
     ELSE m

OnEvent(m, e) ==
  CASE e.k = "rd" -> OnRd(m, e.b)
    [] e.k = "wr" -> IF e.ok THEN MatchByte(ConsumeRelease(m), e.b) ELSE m
    [] e.k = "cmd" -> IF m.lost THEN MonNestedLost(IF e.fsm = "cmd" THEN LightC02(m, e) ELSE m, e.in) ELSE IF e.fsm = "cmd" THEN OnCmdC(m, e) ELSE OnCmdE(m, e)
    [] e.k = "vr" -> IF m.lost THEN MonNestedLost(m, e.in) ELSE OnVr(m, e)
    [] e.k = "vw" -> IF m.lost THEN MonNestedLost(m, e.in) ELSE OnVw(m, e)
    [] e.k = "mem" -> OnMem(m, e)
    [] e.k \in {"crash", "canary", "half"} ->
         [AddBad(m, IF e.k = "canary" /\ e.what = "var" THEN "C05,C03" ELSE "C03", <<e.k, e>>) EXCEPT !.lost = m.lost]
    [] OTHER -> m

(***************************************************************************)
(* Records                                                                 *)
(***************************************************************************)
\* C16: the lock bracket of one recorded API call
RECURSIVE Bracket(_, _, _)
\* st: 0 free (nothing taken yet), 1 held, 2 released; result "" = fine, else what is wrong
Bracket(evs, st, first) ==
  IF evs = <<>> THEN IF st = 1 THEN "returned without unlocking" ELSE ""
  ELSE LET e == Head(evs) IN
       IF e.k = "lock" THEN
          IF st = 1 THEN "lock taken twice"
          ELSE IF ~e.clean THEN "state changed before the lock was taken"
          ELSE IF e.r # 0 THEN (IF Len(evs) > 1 /\ evs[2].k # "lock" THEN "activity after a failed lock" ELSE Bracket(Tail(evs), 0, FALSE))
          ELSE Bracket(Tail(evs), 1, FALSE)
       ELSE IF e.k = "unlock" THEN IF st # 1 THEN "unlock without lock" ELSE Bracket(Tail(evs), 2, FALSE)
       ELSE IF e.k \in {"rd", "wr", "cmd", "vr", "vw"} THEN IF st # 1 THEN "callback outside the lock" ELSE Bracket(Tail(evs), st, FALSE)
       ELSE Bracket(Tail(evs), st, first)

MutexCheck(m, rec) ==
  IF ~m.cfg.mutex \/ ~(Locking(rec.f) \/ rec.f \in {"svc", "svcs"}) THEN m
  ELSE LET evs == SelectSeq(rec.ev, LAMBDA e : e.k \in {"lock", "unlock", "rd", "wr", "cmd", "vr", "vw"})
           why == IF evs = <<>> \/ evs[1].k # "lock" THEN "no lock taken" ELSE Bracket(evs, 0, TRUE)
           single == "mx" \in DOMAIN rec
           why2 == IF why # "" THEN why
                   ELSE IF ~single THEN ""
                   ELSE IF evs[1].r # 0 THEN (IF rec.ret # S_MUTEX_LOCK THEN "failed lock not reported" ELSE IF ~rec.mx.unch THEN "state changed although the lock failed" ELSE "")
                   ELSE IF ~rec.mx.sau THEN "state changed after unlock"
                   ELSE IF evs[Len(evs)].k = "unlock" /\ evs[Len(evs)].r # 0 /\ rec.ret # S_MUTEX_UNLOCK THEN "failed unlock not reported"
                   ELSE IF evs[Len(evs)].k = "unlock" /\ evs[Len(evs)].r = 0 /\ rec.ret \in {S_MUTEX_UNLOCK, S_MUTEX_LOCK} THEN "mutex error reported without failure"
                   ELSE ""
       IN IF why2 = "" THEN m ELSE [AddBad(m, "C16", <<why2, rec.f>>) EXCEPT !.lost = m.lost]

RECURSIVE FoldEvents(_, _)
FoldEvents(m, evs) == IF evs = <<>> THEN m ELSE FoldEvents(OnEvent(m, Head(evs)), Tail(evs))

Resync(m) == [m EXCEPT !.lost = FALSE, !.cph = "idle", !.cc = -1, !.pend = FALSE, !.expC = <<>>, !.expE = <<>>, !.H = {},
                      !.q = <<>>, !.eph = "idle", !.ec = -1, !.eclosing = {}, !.emaybe = 0, !.rel = 0, !.relwin = FALSE,
                      !.owed = {}, !.stray = <<>>, !.crl = FALSE, !.idleOk = TRUE, !.lastfail = <<-1, -1>>, !.eunc = FALSE]

\* cat_service returned OK: nothing may be left to do
Quiescent(m) ==
  LET m1 == StrayVerdict(m) IN
  IF m1.lost THEN Resync(m1)
  ELSE LET what == IF m1.pend THEN "a command line is unanswered"
                   ELSE IF m1.expC # <<>> \/ m1.expE # <<>> \/ m1.H # {} THEN "output is still owed"
                   ELSE IF m1.q # <<>> \/ m1.eph # "idle" THEN "an event is still pending"
                   ELSE ""
       IN IF what = "" THEN [m1 EXCEPT !.eclosing = {}, !.emaybe = 0, !.idleOk = TRUE, !.lastfail = <<-1, -1>>, !.eunc = FALSE]
          ELSE Resync(AddBad(m1, IF what = "an event is still pending" THEN "C15,C13" ELSE "C15", <<"cat_service returned OK but", what>>))

MonSvc(m, rec) ==
  LET lockFailed == m.cfg.mutex /\ rec.ret = S_MUTEX_LOCK
      wasIdle == m.idleOk /\ ~m.lost
      evs == SelectSeq(rec.ev, LAMBDA e : e.k \notin {"lock", "unlock"})
      newInput == \E i \in 1..Len(evs) : evs[i].k = "rd" /\ evs[i].b # -1
      active == \E i \in 1..Len(evs) : evs[i].k \in {"wr", "cmd", "vr", "vw"}
      m1 == MutexCheck(m, rec)
      m2 == ConsumeRelease(FoldEvents(m1, evs))
      m3 == IF wasIdle /\ ~newInput /\ ~lockFailed /\ (active \/ rec.ret \notin {S_OK, S_MUTEX_UNLOCK}) /\ ~m2.lost
            THEN AddBad(m2, "C15", <<"cat_service had reported OK, but the repeated call was not idle", rec.ret>>) ELSE m2
      m4 == IF rec.f = "svc" /\ rec.ret = S_OK /\ newInput /\ ~m3.lost THEN AddBad(m3, "C15", "cat_service returned OK although this very call consumed input") ELSE m3
  IN IF rec.ret = S_OK THEN Quiescent(m4) ELSE IF lockFailed \/ rec.ret = S_MUTEX_UNLOCK THEN m3 ELSE [m3 EXCEPT !.idleOk = FALSE]

RECURSIVE QevFold(_, _, _)
QevFold(m, bf, c) == IF c > Len(bf) THEN m
                     ELSE QevFold(BufferedRet(BufferedRet(BufferedRet(m, c - 1, CT_NONE, bf[c][1]), c - 1, CT_READ, bf[c][2]), c - 1, CT_TEST, bf[c][3]), bf, c + 1)

MonEnv(m, rec) ==
  CASE rec.f = "setmem" -> MemChange(m, rec.c, rec.v, rec.val, "top")
    [] rec.f = "flag" -> LET m1 == [m EXCEPT !.cfg = SetFlag(m.cfg, rec)] IN
                         IF m.lost \/ (m.cph = "idle" /\ ~m.nb) THEN m1 ELSE Unclassified(m1)
    [] rec.f = "gname" -> [m EXCEPT !.cfg = SetGroupName(m.cfg, rec)]
    [] rec.f = "settled" -> IF rec.ok \/ m.lost \/ (m.cph = "held" /\ m.rel = 0) THEN m
                            ELSE AddBad(m, "C15", <<"no quiescence within the call budget", rec.calls>>)
    [] rec.f = "note" -> IF rec.t = "rt_begin" THEN [m EXCEPT !.rt = TRUE] ELSE IF rec.t = "rt_end" THEN [m EXCEPT !.rt = FALSE] ELSE m
    [] OTHER -> m

MonRecord(m0, rec) ==
  LET m == [m0 EXCEPT !.n = @ + 1] IN
  IF rec.e = "api" THEN
     IF rec.f \in {"svc", "svcs"} THEN MonSvc(m, rec)
     ELSE IF rec.f = "qev" THEN ProcRet(QevFold(m, rec.bf, 1), 1, rec.pu)
     ELSE IF rec.f = "none" THEN FoldEvents(m, rec.ev)
     ELSE LET lockFailed == m.cfg.mutex /\ Locking(rec.f) /\ rec.ret \in {S_MUTEX_LOCK, S_MUTEX_UNLOCK} IN
          IF lockFailed /\ rec.ret = S_MUTEX_LOCK THEN MutexCheck(m, rec)
          ELSE IF lockFailed THEN (IF rec.f \in {"trigger", "hold_exit"} THEN Unclassified(MutexCheck(m, rec)) ELSE MutexCheck(m, rec))
                                                                        \* the body ran but its result was replaced by the unlock error
          ELSE MonApiSimple(MutexCheck(m, rec), rec.f, rec.a, rec.ret)
  ELSE IF rec.e = "env" THEN MonEnv(m, rec)
  ELSE IF rec.e = "end" THEN StrayVerdict(m)
  ELSE m
=============================================================================
