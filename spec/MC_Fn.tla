-------------------------------- MODULE MC_Fn --------------------------------
(***************************************************************************)
(* Function-level equivalences: the per-character folds CatImpl uses       *)
(* (DecodeVar, ReadVarText) against the declarative definitions of         *)
(* CatOracle (DeclNum, DeclBufHex, DeclString, DeclReadText), over         *)
(* exhaustively enumerated argument texts and variables; and the round     *)
(* trip  Decode(Format(v)) = v  (C07).  One state per domain point.        *)
(***************************************************************************)
EXTENDS CatOracle

CONSTANTS Alphabet, MaxLen, Mode

VARIABLE x
RECURSIVE Texts(_)
Texts(n) == IF n = 0 THEN {<<>>} ELSE LET s == Texts(n - 1) IN s \cup {Append(t, b) : t \in {u \in s : Len(u) = n - 1}, b \in Alphabet}

NumVar(type, size, acc) == [type |-> type, size |-> size, acc |-> acc, hasname |-> FALSE, name |-> <<>>, vr |-> FALSE, vw |-> FALSE]
NumVars == {NumVar(t, s, a) : t \in {VT_INT, VT_UINT, VT_HEX}, s \in {1, 2, 3, 4}, a \in {ACC_RW, ACC_RO, ACC_WO}}
BufVars == {NumVar(t, s, a) : t \in {VT_BUFHEX, VT_STRING}, s \in {1, 2, 3}, a \in {ACC_RW, ACC_RO, ACC_WO}}
OldOf(var) == IF var.type \in {VT_BUFHEX, VT_STRING} THEN [i \in 1..var.size |-> 238] ELSE <<55>>

\* boundary digit strings that a short alphabet cannot reach
D(s) == s
Big == {D_127, D_128, <<49,50,57>>, D_255, <<50,53,54>>, D_32767, D_32768, <<51,50,55,54,57>>, D_65535, <<54,53,53,51,54>>,
        D_2147483647, D_2147483648, <<50,49,52,55,52,56,51,54,52,57>>, D_4294967295, <<52,50,57,52,57,54,55,50,57,54>>,
        D_I64MAX, <<57,50,50,51,51,55,50,48,51,54,56,53,52,55,55,53,56,48,56>>, D_U64MAX,
        <<49,56,52,52,54,55,52,52,48,55,51,55,48,57,53,53,49,54,49,54>>, <<49,56,52,52,54,55,52,52,48,55,51,55,48,57,53,53,49,54,50,49>>}
BigTexts == Big \cup {<<CH_MINUS>> \o d : d \in Big} \cup {<<CH_0, CH_0>> \o d : d \in Big} \cup {<<CH_PLUS>> \o d : d \in Big}
            \cup {<<CH_0, 120>> \o h : h \in {<<70,70>>, <<49,48,48>>, <<70,70,70,70>>, <<49,48,48,48,48>>, <<70,70,70,70,70,70,70,70>>, <<49,48,48,48,48,48,48,48,48>>,
                                              <<70,70,70,70,70,70,70,70,70,70,70,70,70,70,70,70>>, <<49,48,48,48,48,48,48,48,48,48,48,48,48,48,48,48,53>>,
                                              <<48,48,48,48,48,48,48,48,48,48,48,48,48,48,48,48,48,48,70>>}}

Init == \/ Mode = "num" /\ x \in (Texts(MaxLen) \cup BigTexts) \X NumVars
        \/ Mode = "buf" /\ x \in Texts(MaxLen) \X BufVars
Next == UNCHANGED x
Spec == Init /\ [][Next]_x

\* the machine's fold agrees with the declarative meaning
Agree ==
  LET t == x[1]  var == x[2]  old == OldOf(var)
      d == DecodeVar(t, 0, var, old)
      f == FieldOf(t, 0)
      term == FieldTerm(t, 0)
  IN IF var.type \in {VT_INT, VT_UINT, VT_HEX} THEN
        LET o == DeclNum(var, f, old) IN
        /\ (d.stat >= 0) = o.ok
        /\ d.val = o.val
        /\ (o.ok => d.stat = term /\ d.pos = Len(f) + 1)
        /\ (o.ok => d.ws = IF var.acc = ACC_RO THEN 0 ELSE var.size)
     ELSE LET o == IF var.type = VT_BUFHEX THEN DeclBufHex(var, f, old) ELSE DeclString(var, FieldOf(t, 0), old) IN
        \* strings may contain commas inside the quotes: the declarative field is then not the machine's field; compare only comma-free texts there
        IF var.type = VT_STRING /\ \E i \in 1..Len(t) : t[i] = COMMA THEN TRUE
        ELSE /\ (d.stat >= 0) = o.ok
             /\ (o.ok => d.val = o.val /\ d.ws = (IF var.acc = ACC_RO THEN 0 ELSE o.n) /\ d.stat = term)
             \* never a store at or beyond data_size, accepted or not (the value keeps its length), and read-only storage is untouched
             /\ Len(d.val) = var.size
             /\ (var.acc = ACC_RO => d.val = old)

\* C07: formatting then parsing is the identity on canonical values; C08: masked text for write-only
RoundTrip ==
  LET t == x[1]  var == x[2]  old == OldOf(var)
      d == DecodeVar(t, 0, var, old)
  IN (d.stat >= 0 /\ var.acc = ACC_RW /\ (var.type \in {VT_INT, VT_UINT, VT_HEX} => var.size \in {1, 2, 4})) =>
       LET txt == ReadVarText(var, d.val)
           back == DecodeVar(txt.t, 0, var, d.val)
       IN txt.ok /\ txt.t = DeclReadText(var, d.val) /\ back.stat = 0 /\ back.val = d.val
=============================================================================
