SPECIFICATION Spec
CONSTANTS
  Tables <- MCTables
  Bytes <- MCBytes
  MaxBytes = 6
  MaxLines = 1
  Codes <- MCCodes
  VarRets = {0, 1}
  WrChoices = {TRUE}
  RdNone = FALSE
  Trigs <- MCTrigs
  MaxTrig = 1
  HxSet = {0}
  MaxHx = 1
  Queries = FALSE
  LockRets = {0}
  MaxLockFail = 0
  Toggles = {}
  MaxToggle = 0
  Edits = TRUE
  Prefix <- MCPrefix
  MaxHavoc = 0
  KeepRec = TRUE
  NestedTrigs = {}
  NestedHx = {}
  EvMayHold = FALSE
INVARIANT NoBad
INVARIANT Structural
ACTION_CONSTRAINT EdgeExport
VIEW EdgeView
CHECK_DEADLOCK FALSE
