------------------------------ MODULE MC_Ring ------------------------------
EXTENDS MCBase


(* Ring histories of unbounded length (the state space is finite): C13. *)
N_U == <<85>>
N_V == <<86>>
TR(q) == MkCfg(<<MkCmd(N_U, FALSE, TRUE, FALSE, TRUE, <<U8(D5)>>), MkCmd(N_V, FALSE, FALSE, FALSE, FALSE, <<>>)>>, 6, 6, q, FALSE)
MCTables == {TR(1), TR(2), TR(3)}
MCTablesQ == {TR(1), TR(2)}
MCBytes == {10}
MCCodes == {RET_DATA_OK, RET_OK, RET_DATA_NEXT}
MCTrigs == {<<0, CT_READ>>, <<0, CT_TEST>>, <<1, CT_READ>>}

=============================================================================
