SPECIFICATION Spec
CONSTANTS
  Tables <- MCTables
  Bytes <- MCBytes
  MaxBytes = 7
  MaxLines = 2
  Codes <- MCCodes
  VarRets = {0}
  WrChoices = {TRUE}
  RdNone = FALSE
  Trigs = {}
  MaxTrig = 0
  HxSet = {}
  MaxHx = 0
  Queries = FALSE
  LockRets = {0}
  MaxLockFail = 0
  Toggles <- MCToggles
  MaxToggle = 2
  Edits = FALSE
  Prefix <- NoPrefix
  MaxHavoc = 0
  KeepRec = FALSE
  NestedTrigs = {}
  NestedHx = {}
  EvMayHold = FALSE
INVARIANT NoBad
INVARIANT Structural
CHECK_DEADLOCK FALSE
