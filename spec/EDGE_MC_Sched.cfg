SPECIFICATION Spec
CONSTANTS
  Tables <- MCTablesQ
  Bytes <- MCBytes
  MaxBytes = 5
  MaxLines = 1
  Codes <- MCCodes
  VarRets = {0}
  WrChoices = {TRUE, FALSE}
  RdNone = TRUE
  Trigs <- MCTrigs
  MaxTrig = 1
  HxSet = {}
  MaxHx = 0
  Queries = TRUE
  LockRets = {0}
  MaxLockFail = 0
  Toggles = {}
  MaxToggle = 0
  Edits = FALSE
  Prefix <- NoPrefix
  MaxHavoc = 0
  KeepRec = TRUE
  NestedTrigs = {}
  NestedHx = {}
  EvMayHold = FALSE
INVARIANT NoBad
INVARIANT Structural
ACTION_CONSTRAINT EdgeExport
VIEW EdgeView
CHECK_DEADLOCK FALSE
