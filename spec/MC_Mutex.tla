------------------------------ MODULE MC_Mutex ------------------------------
EXTENDS MCBase


(* Lock and unlock results are environment choices for every locking API function: C16. *)
N_C == <<67>>
N_U == <<85>>
TM == MkCfg(<<MkCmd(N_C, FALSE, TRUE, TRUE, FALSE, <<>>), MkCmd(N_U, FALSE, FALSE, FALSE, FALSE, <<U8(D5)>>)>>, 6, 6, 1, TRUE)
MCTables == {TM}
MCBytes == {65, 84, 67, 63, 10}
MCCodes == {RET_DATA_OK, RET_HOLD, RET_OK}
MCTrigs == {<<1, CT_READ>>}
MCPrefix == <<65, 84, 67>>

=============================================================================
