SPECIFICATION Spec
CONSTANTS
  Tables <- MCTablesH
  Bytes <- MCBytesH
  MaxBytes = 6
  MaxLines = 2
  Codes <- MCCodes
  VarRets = {0}
  WrChoices = {TRUE}
  RdNone = FALSE
  Trigs = {}
  MaxTrig = 0
  HxSet = {}
  MaxHx = 0
  Queries = FALSE
  LockRets = {0}
  MaxLockFail = 0
  Toggles = {}
  MaxToggle = 0
  Edits = FALSE
  Prefix <- NoPrefix
  MaxHavoc = 2
  KeepRec = FALSE
  NestedTrigs = {}
  NestedHx = {}
  EvMayHold = FALSE
INVARIANT NoBad
INVARIANT Structural
CHECK_DEADLOCK FALSE
