------------------------------- MODULE CatSys -------------------------------
(***************************************************************************)
(* CatImpl closed with a nondeterministic environment and composed with    *)
(* the monitors of CatMon: the model-checking side of the specification.   *)
(*                                                                         *)
(* Every source of nondeterminism the library is exposed to is an          *)
(* environment choice here: the next input byte (chosen at the read), "no  *)
(* byte yet", write accepted / refused, the return code of every handler   *)
(* invocation, the result of every variable callback, lock / unlock        *)
(* results, and - between cat_service calls - triggers, hold-exit          *)
(* requests, queries and flag toggles.  Each step builds the same record   *)
(* the harness writes for the real code and feeds it to MonRecord, so the  *)
(* invariant NoBad says: no behaviour of the specification, under any      *)
(* environment within the bounds, contradicts any property statement.      *)
(***************************************************************************)
EXTENDS CatMon, Json

CONSTANTS Tables,      \* set of descriptors (cfg records) to start from
          Bytes,       \* input alphabet (byte chosen at the read)
          MaxBytes,    \* input budget
          MaxLines,    \* at most this many LF
          Codes,       \* return codes handlers may answer
          VarRets,     \* results of variable callbacks
          WrChoices,   \* subset of {TRUE, FALSE}: write accepted / refused
          RdNone,      \* BOOLEAN: "no byte yet" possible
          Trigs,       \* set of <<c, t>> that may be triggered
          MaxTrig,     \* trigger budget
          HxSet,       \* statuses for cat_hold_exit
          MaxHx,       \* hold-exit budget
          Queries,     \* BOOLEAN: pure queries as explicit steps
          LockRets,    \* results of lock / unlock (subset of {0, 1})
          MaxLockFail, \* budget of failing lock/unlock
          Toggles,     \* set of [t, i, fl] flag toggles (between lines only)
          MaxToggle,
          Edits,       \* BOOLEAN: read/test handlers may rewrite the response buffer
          Prefix,      \* input bytes delivered first (fixed), before the free choice starts
          MaxHavoc,    \* budget of HavocScratch steps (C20)
          KeepRec,     \* BOOLEAN: keep the last record in mon.last (simulation export only; FALSE for model checking)
          NestedTrigs, \* set of <<c, t>>: events a handler may trigger from inside its invocation (cat_trigger_unsolicited_event called in a handler)
          NestedHx,    \* set of statuses: a handler may call cat_hold_exit(status) from inside its invocation
          EvMayHold    \* BOOLEAN: event handlers may return HOLD (outside the supported domain, DESIGN section 5; informational configuration only)

VARIABLES S, mem, cfg, mon, nbytes, nlines, ntrig, nhx, nfail, ntog, lastRet, nhav

vars == <<S, mem, cfg, mon, nbytes, nlines, ntrig, nhx, nfail, ntog, lastRet, nhav>>

Init == /\ cfg \in Tables
        /\ S = InitS(cfg)
        /\ mem = InitMem(cfg)
        /\ mon = MonInit(cfg)
        /\ nbytes = 0 /\ nlines = 0 /\ ntrig = 0 /\ nhx = 0 /\ nfail = 0 /\ ntog = 0
        /\ lastRet = S_BUSY /\ nhav = 0

\* ---- candidate answers for the external call the model is about to make
EditsOf(data) == IF Edits THEN {data, <<120>>} ELSE {data}
\* what the handler does inside its invocation: nothing, or one trigger (either outcome is offered; the inconsistent one is discarded by ApplyIn)
InsOf == {<<>>} \cup {<<[k |-> "api", f |-> "trigger", a |-> <<x[1], x[2]>>, ev |-> <<>>, ret |-> r]>> : x \in NestedTrigs, r \in {S_OK, S_FULL}}
               \cup {<<[k |-> "api", f |-> "hold_exit", a |-> <<s>>, ev |-> <<>>, ret |-> r]>> : s \in NestedHx, r \in {S_OK, S_NOT_HOLD}}
Candidates(mis) ==
  CASE mis.what = "rd" -> {[k |-> "rd", b |-> x, off |-> mis.exp] : x \in (IF nbytes < Len(Prefix) THEN {Prefix[nbytes + 1]}
                                                                      ELSE IF nbytes < MaxBytes THEN {b \in Bytes : b # LF \/ nlines < MaxLines} ELSE {})
                                                                     \cup (IF RdNone \/ nbytes >= MaxBytes THEN {-1} ELSE {})}
    [] mis.what = "wr" -> {[k |-> "wr", b |-> mis.exp, ok |-> o, r |-> IF o THEN 1 ELSE 0] : o \in WrChoices}
    [] mis.what = "cmd" ->
         IF mis.exp.kind = "write" THEN
            {[k |-> "cmd", kind |-> "write", c |-> mis.exp.c, fsm |-> mis.exp.fsm, data |-> mis.exp.data, size |-> mis.exp.size, aux |-> mis.exp.aux,
              nul |-> TRUE, ret |-> r, data2 |-> <<>>, size2 |-> 0, in |-> i] : r \in Codes, i \in InsOf}
         ELSE IF mis.exp.kind = "run" THEN
            {[k |-> "cmd", kind |-> "run", c |-> mis.exp.c, fsm |-> mis.exp.fsm, data |-> <<>>, size |-> 0, aux |-> 0,
              ret |-> r, data2 |-> <<>>, size2 |-> 0, in |-> i] : r \in Codes, i \in InsOf}
         ELSE {[k |-> "cmd", kind |-> mis.exp.kind, c |-> mis.exp.c, fsm |-> mis.exp.fsm, data |-> mis.exp.data, size |-> mis.exp.size, aux |-> mis.exp.aux,
                ret |-> r, data2 |-> d, size2 |-> Len(d), in |-> i]
                 : r \in (IF mis.exp.fsm = "ev" /\ ~EvMayHold THEN Codes \ {RET_HOLD} ELSE Codes), d \in EditsOf(mis.exp.data), i \in InsOf}
    [] mis.what = "vr" -> {[k |-> "vr", c |-> mis.exp[1], v |-> mis.exp[2], r |-> r, in |-> <<>>] : r \in VarRets}
    [] mis.what = "vw" -> {[k |-> "vw", c |-> mis.exp[1], v |-> mis.exp[2], ws |-> mis.exp[3], r |-> r, in |-> <<>>] : r \in VarRets}
    [] mis.what = "lock" -> {[k |-> "lock", r |-> r, n |-> 0, clean |-> TRUE] : r \in (IF nfail < MaxLockFail THEN LockRets ELSE {0})}
    [] mis.what = "unlock" -> {[k |-> "unlock", r |-> r, n |-> 0] : r \in (IF nfail < MaxLockFail THEN LockRets ELSE {0})}
    [] OTHER -> {}

FirstMismatch(obs) == LET idx == {i \in 1..Len(obs) : obs[i].k = "MISMATCH"} IN
                      IF idx = {} THEN 0 ELSE CHOOSE i \in idx : \A j \in idx : i <= j

\* all complete answer lists for one cat_service call from the current state
RECURSIVE Completions(_)
Completions(ans) ==
  LET r == Service(S, mem, cfg, ans)
      k == FirstMismatch(r.obs)
  IN IF k = 0 THEN {ans}
     ELSE UNION {Completions(Append(ans, a)) : a \in Candidates(r.obs[k])}

\* the variable-storage differences the harness would report after the call
MemDiff(m0, m1) ==
  LET cs == {<<c, v>> \in (0..(NCmds(cfg) - 1)) \X (0..8) : v < NVars(cfg, c) /\ m0[c + 1][v + 1] # m1[c + 1][v + 1]}
      RECURSIVE ToSeq(_)
      ToSeq(s) == IF s = {} THEN <<>>
                  ELSE LET x == CHOOSE x \in s : \A y \in s : x[1] < y[1] \/ (x[1] = y[1] /\ x[2] <= y[2])
                       IN <<[k |-> "mem", c |-> x[1], v |-> x[2], before |-> m0[x[1] + 1][x[2] + 1], after |-> m1[x[1] + 1][x[2] + 1]]>> \o ToSeq(s \ {x})
  IN ToSeq(cs)

Clean(m) == [m EXCEPT !.n = 0, !.txns = 0, !.units = 0, !.evs = 0, !.uncl = IF @ > 0 THEN 1 ELSE 0, !.ulog = <<>>]
Feed(m, rec) == IF KeepRec THEN [Clean(MonRecord(m, rec)) EXCEPT !.last = rec] ELSE Clean(MonRecord(m, rec))
Fails(obs) == Cardinality({i \in 1..Len(obs) : obs[i].k \in {"lock", "unlock"} /\ obs[i].r # 0})
Count(obs, k, p(_)) == Cardinality({i \in 1..Len(obs) : obs[i].k = k /\ p(obs[i])})

SvcAct ==
  \E ans \in Completions(<<>>) :
    LET r == Service(S, mem, cfg, ans)
        base == [e |-> "api", f |-> "svc", a |-> <<>>, ev |-> r.obs \o MemDiff(mem, r.mem), ret |-> r.ret]
        rec == IF cfg.mutex THEN [e |-> "api", f |-> "svc", a |-> <<>>, ev |-> base.ev, ret |-> r.ret, mx |-> [sau |-> TRUE, unch |-> TRUE]] ELSE base
    IN /\ S' = r.s /\ mem' = r.mem /\ cfg' = r.cfg
       /\ mon' = Feed(mon, rec)
       /\ nbytes' = nbytes + Count(r.obs, "rd", LAMBDA e : e.b # -1)
       /\ nlines' = nlines + Count(r.obs, "rd", LAMBDA e : e.b = LF)
       /\ nfail' = nfail + Fails(r.obs)
       /\ lastRet' = r.ret
       /\ UNCHANGED <<ntrig, nhx, ntog, nhav>>

\* the simple API calls; lock results are environment choices too
LockLogs(f) == IF ~(cfg.mutex /\ Locking(f)) THEN {<<>>}
               ELSE {<<[k |-> "lock", r |-> l, n |-> 0, clean |-> TRUE]>> : l \in (IF nfail < MaxLockFail THEN LockRets \ {0} ELSE {})}
                    \cup {<<[k |-> "lock", r |-> 0, n |-> 0, clean |-> TRUE], [k |-> "unlock", r |-> u, n |-> 0]>> : u \in (IF nfail < MaxLockFail THEN LockRets ELSE {0})}
ApiAct(f, a) ==
  \E evlog \in LockLogs(f) :
    LET r == ApiSimple(cfg, S, f, a, evlog)
        base == [e |-> "api", f |-> f, a |-> a, ev |-> r.obs, ret |-> r.ret]
        rec == IF cfg.mutex THEN [e |-> "api", f |-> f, a |-> a, ev |-> r.obs, ret |-> r.ret, mx |-> [sau |-> TRUE, unch |-> (r.s = S)]] ELSE base
    IN /\ S' = r.s
       /\ mon' = Feed(mon, rec)
       /\ nfail' = nfail + Fails(r.obs)
       /\ lastRet' = IF f \in {"trigger", "hold_exit"} THEN S_BUSY ELSE lastRet
       /\ UNCHANGED <<mem, cfg, nbytes, nlines, nhav>>

TrigAct == /\ (MaxTrig < 0 \/ ntrig < MaxTrig) /\ \E x \in Trigs : ApiAct("trigger", <<x[1], x[2]>>)
           /\ ntrig' = (IF MaxTrig < 0 THEN ntrig ELSE ntrig + 1) /\ UNCHANGED <<nhx, ntog>>
HxAct == /\ nhx < MaxHx /\ \E s \in HxSet : ApiAct("hold_exit", <<s>>)
         /\ nhx' = nhx + 1 /\ UNCHANGED <<ntrig, ntog>>
QueryAct == /\ Queries
            /\ \/ ApiAct("is_busy", <<>>) \/ ApiAct("is_hold", <<>>) \/ ApiAct("is_full", <<>>)
               \/ \E x \in Trigs : \E t \in {CT_NONE, x[2]} : ApiAct("is_buffered", <<x[1], t>>)
               \/ ApiAct("processed", <<1>>)
            /\ UNCHANGED <<ntrig, nhx, ntog>>

\* flags change only between command lines (DESIGN section 5)
ToggleAct ==
  /\ ntog < MaxToggle /\ S.s = ST_IDLE /\ mon.cph = "idle" /\ ~mon.nb
  /\ \E tg \in Toggles :
       LET cur == IF tg.t = "group" THEN cfg.groups[tg.i + 1].disable ELSE IF tg.fl = "disable" THEN cfg.cmds[tg.i + 1].disable ELSE cfg.cmds[tg.i + 1].only_test
           rec == [e |-> "env", f |-> "flag", t |-> tg.t, i |-> tg.i, fl |-> tg.fl, val |-> ~cur]
       IN /\ cfg' = SetFlag(cfg, rec)
          /\ mon' = Feed(mon, rec)
  /\ ntog' = ntog + 1
  /\ UNCHANGED <<S, mem, nbytes, nlines, ntrig, nhx, nfail, lastRet, nhav>>

\* C20: at a line boundary every per-line scratch field the C code leaves stale may hold anything
HavocAct ==
  /\ nhav < MaxHavoc /\ S.s = ST_IDLE /\ S.us = US_IDLE /\ S.cnt = 0
  /\ \E hv \in {[i |-> 0, p |-> 3, ln |-> 4, ch |-> LF, mt |-> 2, ab |-> <<65, 84, 65>>],
                 [i |-> 2, p |-> 0, ln |-> 0, ch |-> 65, mt |-> 1, ab |-> <<>>],
                 [i |-> 2, p |-> 3, ln |-> 4, ch |-> 0, mt |-> 0, ab |-> <<65, 84, 65>>]} :
        S' = [S EXCEPT !.idx = hv.i, !.par = hv.p, !.len = hv.ln, !.pos = hv.p, !.ws = hv.ln, !.ch = hv.ch, !.var = -1,
                       !.match = [c \in 1..NCmds(cfg) |-> hv.mt], !.abuf = hv.ab, !.wb = WB_CMD, !.wph = hv.mt, !.waf = ST_AF_OK]
  /\ nhav' = nhav + 1
  /\ UNCHANGED <<mem, cfg, mon, nbytes, nlines, ntrig, nhx, nfail, ntog, lastRet>>

Next == SvcAct \/ TrigAct \/ HxAct \/ QueryAct \/ ToggleAct \/ HavocAct

Spec == Init /\ [][Next]_vars

\* simulation export (tlc -simulate, -workers 1): TLC evaluates this for every candidate successor of the current state, so the *current* state's record is printed (repeatedly, de-duplicated by the reader); level 1 starts a new behaviour
SimExport == PrintT(<<"SIMREC", TLCGet("level"), ToJson(mon.last), IF TLCGet("level") = 1 THEN ToJson(cfg) ELSE "">>)
\* edge export (model checking, -workers 1, KeepRec = TRUE, VIEW EdgeView): the last record is kept in mon.last but is not part of a state's identity, so
\* TLC walks the same graph as with KeepRec = FALSE and every transition it generates is printed with its record: source id, target id, record,
\* configuration, level of the source.  lib/edgecover.py turns the graph into paths that cover every edge and replays them on the real code.
EdgeView == <<S, mem, cfg, [mon EXCEPT !.last = <<>>], nbytes, nlines, ntrig, nhx, nfail, ntog, lastRet, nhav>>
EdgeId(s, m, mo, a, b, c, d, e, f, g, h) == ToJson(<<s, m, [mo EXCEPT !.last = <<>>], a, b, c, d, e, f, g, h>>)
EdgeExport == PrintT(<<"EDGE", EdgeId(S, mem, mon, nbytes, nlines, ntrig, nhx, nfail, ntog, lastRet, nhav),
                       EdgeId(S', mem', mon', nbytes', nlines', ntrig', nhx', nfail', ntog', lastRet', nhav'), ToJson(mon'.last), ToJson(cfg), TLCGet("level")>>)
FairSpec == Spec /\ WF_vars(SvcAct)

(***************************************************************************)
(* Invariants                                                              *)
(***************************************************************************)
NoBad == mon.bad = <<>>

\* C11: the two flush engines are never active together
FlushMutex == ~(S.s = ST_FLUSH /\ S.us = US_FLUSH)
\* C13: ring equations
RingOk == /\ S.cnt \in 0..cfg.qcap /\ S.head \in 0..(cfg.qcap - 1) /\ S.tail \in 0..(cfg.qcap - 1)
          /\ S.tail = (S.head + S.cnt) % cfg.qcap
\* C03 / C06: everything the model stores stays inside the buffers
BoundsOk == /\ Len(S.abuf) < cfg.acap \/ S.s = ST_ERROR \/ Len(S.abuf) = 0
            /\ (cfg.ucap > 0 => Len(S.ubuf) < cfg.ucap) /\ (cfg.ucap = 0 => S.ubuf = <<>>)
            /\ S.pos <= cfg.acap /\ S.upos <= cfg.ucap
\* C14: the state is HOLD exactly while the flag is set and nothing else is going on for the command machine
HoldOk == (S.s = ST_HOLD) => S.hold
\* C01: an acknowledgement starts only after the LF of the line has been consumed (or from the hold state)
AckAfterLF == (S.s = ST_NOT_FOUND) => S.ch = LF
\* C15: OK only when quiescent
OkIsQuiescent == lastRet = S_OK => (S.us = US_IDLE /\ S.cnt = 0 /\ ~S.hold /\ S.s \in {ST_ERROR, ST_IDLE, ST_PREFIX, ST_NAME, ST_WAIT_READ, ST_ARGS, ST_WAIT_TEST})
\* C18
BusyOk == (S.s = ST_IDLE /\ S.us = US_IDLE) => (mon.lost \/ (~mon.pend /\ mon.H = {}))
\* the monitor of the model is never left without a prediction (informational; ambiguity cases excepted)
NeverLost == ~mon.lost

Structural == FlushMutex /\ RingOk /\ BoundsOk /\ HoldOk /\ AckAfterLF /\ OkIsQuiescent /\ BusyOk

\* C15 liveness: once all budgets are spent and output is accepted, cat_service eventually reports OK (unless held)
Budgetless == nbytes >= MaxBytes /\ ntrig >= MaxTrig /\ nhx >= MaxHx
EventuallyQuiet == [](Budgetless => <>(lastRet = S_OK \/ S.hold))
=============================================================================
