SPECIFICATION FairSpec
CONSTANTS
  Tables <- MCTablesQ
  Bytes <- MCBytes
  MaxBytes = 5
  MaxLines = 1
  Codes <- MCCodesLive
  VarRets = {0}
  WrChoices = {TRUE}
  RdNone = FALSE
  Trigs <- MCTrigs
  MaxTrig = 1
  HxSet = {}
  MaxHx = 0
  Queries = FALSE
  LockRets = {0}
  MaxLockFail = 0
  Toggles = {}
  MaxToggle = 0
  Edits = FALSE
  Prefix <- NoPrefix
  MaxHavoc = 0
  KeepRec = FALSE
  NestedTrigs = {}
  NestedHx = {}
  EvMayHold = FALSE
INVARIANT NoBad
PROPERTY EventuallyQuiet
CHECK_DEADLOCK FALSE
