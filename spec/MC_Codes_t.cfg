SPECIFICATION Spec
CONSTANTS
  Tables <- MCTables
  Bytes <- MCBytes
  MaxBytes = 7
  MaxLines = 1
  Codes <- MCCodes
  VarRets = {0, 1}
  WrChoices = {TRUE}
  RdNone = TRUE
  Trigs <- MCTrigs
  MaxTrig = 2
  HxSet <- HxBoth
  MaxHx = 1
  Queries = FALSE
  LockRets = {0}
  MaxLockFail = 0
  Toggles = {}
  MaxToggle = 0
  Edits = TRUE
  Prefix <- MCPrefix
  MaxHavoc = 0
  KeepRec = FALSE
  NestedTrigs = {}
  NestedHx = {}
  EvMayHold = FALSE
INVARIANT NoBad
INVARIANT Structural
CHECK_DEADLOCK FALSE
