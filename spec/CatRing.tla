------------------------------- MODULE CatRing -------------------------------
(***************************************************************************)
(* The event ring of cat.c in isolation (push_unsolicited_cmd /            *)
(* pop_unsolicited_cmd, is_unsolicited_buffer_full), for every capacity    *)
(* 1..8, with an inductive invariant: the three indices stay consistent    *)
(* and the ring refines a bounded FIFO (ghost q / qlen).  Discharged with  *)
(* Apalache:  IndInit => IndInv (length 0) and IndInv /\ Next => IndInv'   *)
(* (length 1 from IndInit).  The array has 8 physical slots; only the      *)
(* first QCap are used, as with CAT_UNSOLICITED_CMD_BUFFER_SIZE = QCap.    *)
(***************************************************************************)
EXTENDS Integers

CONSTANT
  \* @type: Int;
  QCap

VARIABLES
  \* @type: Int -> Int;
  ring,
  \* @type: Int;
  head,
  \* @type: Int;
  tail,
  \* @type: Int;
  cnt,
  \* @type: Int -> Int;
  q,
  \* @type: Int;
  qlen

CInit == QCap \in 1..8

Init == /\ ring = [i \in 0..7 |-> 0] /\ head = 0 /\ tail = 0 /\ cnt = 0 /\ q = [i \in 1..8 |-> 0] /\ qlen = 0

Push(x) == /\ cnt # QCap
           /\ ring' = [ring EXCEPT ![tail] = x]
           /\ tail' = IF tail + 1 >= QCap THEN 0 ELSE tail + 1
           /\ cnt' = cnt + 1
           /\ q' = [q EXCEPT ![qlen + 1] = x] /\ qlen' = qlen + 1
           /\ UNCHANGED head
PushFull == cnt = QCap /\ UNCHANGED <<ring, head, tail, cnt, q, qlen>>
Pop == /\ cnt # 0
       /\ head' = IF head + 1 >= QCap THEN 0 ELSE head + 1
       /\ cnt' = cnt - 1
       /\ q' = [i \in 1..8 |-> IF i < 8 THEN q[i + 1] ELSE 0] /\ qlen' = qlen - 1
       /\ UNCHANGED <<ring, tail>>

Next == (\E x \in 1..3 : Push(x)) \/ PushFull \/ Pop

Slot(i) == IF head + i - 1 >= QCap THEN head + i - 1 - QCap ELSE head + i - 1
IndInv == /\ head \in 0..7 /\ head < QCap /\ tail \in 0..7 /\ tail < QCap /\ cnt \in 0..8 /\ cnt <= QCap
          /\ tail = (IF head + cnt >= QCap THEN head + cnt - QCap ELSE head + cnt)
          /\ qlen = cnt
          /\ \A i \in 1..8 : i <= cnt => (q[i] = ring[Slot(i)] /\ q[i] \in 1..3)

\* arbitrary state satisfying the type constraints, then restricted by IndInv: the inductive step starts here
IndInit == /\ ring \in [0..7 -> 0..3] /\ head \in 0..7 /\ tail \in 0..7 /\ cnt \in 0..8 /\ q \in [1..8 -> 0..3] /\ qlen \in 0..8
           /\ IndInv
=============================================================================
