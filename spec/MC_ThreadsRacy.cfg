SPECIFICATION Spec
CONSTANTS
  NProd = 2
  QCap = 2
  Budget = 2
  Racy = TRUE
INVARIANT NeverMoreThanAccepted
INVARIANT ExactlyOnce
INVARIANT RingOk
INVARIANT MutualExclusion
CHECK_DEADLOCK FALSE
