------------------------------ MODULE MC_Hold ------------------------------
EXTENDS MCBase


(* Hold / release at every point, queued second line, events during the hold: C14 C18. *)
N_U == <<85>>
TH == MkCfg(<<MkCmd(N_A, TRUE, TRUE, TRUE, TRUE, <<>>), MkCmd(N_U, FALSE, TRUE, FALSE, FALSE, <<>>)>>, 6, 6, 1, FALSE)
MCTables == {TH}
MCBytes == {65, 84, 63, 10}
MCCodes == {RET_HOLD, RET_OK, RET_DATA_OK, RET_HOLD_EXIT_OK, RET_HOLD_EXIT_ERROR}
MCTrigs == {<<1, CT_READ>>}
MCPrefix == <<65, 84, 65>>

=============================================================================
