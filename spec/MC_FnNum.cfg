SPECIFICATION Spec
CONSTANTS
  Alphabet = {48, 49, 57, 45, 43, 120, 97, 70, 44}
  MaxLen = 4
  Mode = "num"
INVARIANT Agree
INVARIANT RoundTrip
CHECK_DEADLOCK FALSE
