SPECIFICATION Spec
CONSTANTS
  Tables <- MCTables
  Bytes <- MCBytes
  MaxBytes = 5
  MaxLines = 1
  Codes <- MCCodes
  VarRets = {0}
  WrChoices = {TRUE, FALSE}
  RdNone = TRUE
  Trigs <- MCTrigs
  MaxTrig = 2
  HxSet = {}
  MaxHx = 0
  Queries = TRUE
  LockRets = {0}
  MaxLockFail = 0
  Toggles = {}
  MaxToggle = 0
  Edits = FALSE
  Prefix <- NoPrefix
  MaxHavoc = 0
  KeepRec = FALSE
  NestedTrigs <- MCNested
  NestedHx = {}
  EvMayHold = FALSE
INVARIANT NoBad
INVARIANT Structural
CHECK_DEADLOCK FALSE
