SPECIFICATION Spec
CONSTANTS
  Tables <- MCTables
  Bytes <- MCBytes
  MaxBytes = 5
  MaxLines = 1
  Codes <- MCCodes
  VarRets = {0}
  WrChoices = {TRUE}
  RdNone = FALSE
  Trigs = {}
  MaxTrig = 0
  HxSet = {}
  MaxHx = 0
  Queries = FALSE
  LockRets = {0}
  MaxLockFail = 0
  Toggles = {}
  MaxToggle = 0
  Edits = FALSE
  Prefix <- NoPrefix
  MaxHavoc = 0
  KeepRec = TRUE
  NestedTrigs = {}
  NestedHx = {}
  EvMayHold = FALSE
INVARIANT NoBad
INVARIANT Structural
INVARIANT NeverLost
ACTION_CONSTRAINT EdgeExport
VIEW EdgeView
CHECK_DEADLOCK FALSE
