------------------------------- MODULE MCBase -------------------------------
(* Descriptor constructors shared by the model-checking configurations. *)
EXTENDS CatSys

MkVar(type, size, acc, m) == [type |-> type, size |-> size, acc |-> acc, hasname |-> FALSE, name |-> <<>>, vr |-> FALSE, vw |-> FALSE, mem |-> m]
MkVarCb(type, size, acc, m, vr, vw) == [MkVar(type, size, acc, m) EXCEPT !.vr = vr, !.vw = vw]
MkCmd(name, hw, hr, hx, ht, vs) ==
  [name |-> name, group |-> 0, hw |-> hw, hr |-> hr, hx |-> hx, ht |-> ht, need_all |-> FALSE, only_test |-> FALSE,
   disable |-> FALSE, implicit |-> FALSE, hasdesc |-> FALSE, desc |-> <<>>, vars |-> vs]
MkCfg(cmds, acap, ucap, qcap, mutex) ==
  [sid |-> 0, qcap |-> qcap, acap |-> acap, ucap |-> ucap, mutex |-> mutex, groups |-> <<[disable |-> FALSE]>>, cmds |-> cmds]
MkCfgG(cmds, groups, acap, ucap, qcap, mutex) == [MkCfg(cmds, acap, ucap, qcap, mutex) EXCEPT !.groups = groups]

U8(v) == MkVar(VT_UINT, 1, ACC_RW, v)
N_A == <<65>>
N_AB == <<65, 66>>
N_B == <<66>>
N_ABA == <<65, 66, 65>>
D5 == <<53>>
NoPrefix == <<>>
HxBoth == {0, -1}
Unbounded == -1
=============================================================================
