#!/usr/bin/env python3
"""Write refactor/RESULTS.md from refactor/*/meta.json (tools/refeval.py)."""
import glob, json, os
V = os.path.dirname(os.path.dirname(os.path.abspath(__file__)))
rows = []
for d in sorted(glob.glob(os.path.join(V, "refactor", "*", "meta.json"))):
    m = json.load(open(d))
    name = m["name"]
    notes = os.path.join(os.path.dirname(d), "notes.md")
    what = ""
    if os.path.exists(notes):
        txt = [l.strip() for l in open(notes) if l.strip() and not l.startswith("#")]
        what = " ".join(txt)[:260].replace("|", "/")
    drift = sum(1 for c in m["checks"].values() if "drift=" in c.get("summary", "") and "drift=0," not in c["summary"])
    rows.append("| `%s` | %d | %s | %d | %d of %d | %s |" % (name, m.get("changed_lines", 0), "pass" if m.get("tests_pass") else "FAIL", m.get("alarms", -1),
                                                      drift, len(m["checks"]), what))
with open(os.path.join(V, "refactor", "RESULTS.md"), "w") as f:
    f.write("# Checks against behaviour-preserving refactorings (tools/refeval.py)\n\n"
            "Expected: exit 0 for every check (`alarms` = checks that exited non-zero). `drift` = checks whose evidence says `impl_conformance: drift`\n"
            "(the step-grain transcription follows the pinned code; a refactoring that changes the projected struct shows there, never as a verdict).\n\n"
            "| refactoring | changed lines | repo tests | alarms | checks with drift | what was restructured (author's notes) |\n|---|---|---|---|---|---|\n")
    f.write("\n".join(rows) + "\n")
print("\n".join(rows))
