#!/usr/bin/env python3
"""Which lines / branches of $REPO/src/cat.c do the scenario corpora of the registered checks execute?

  tools/coverage.py [quick|thorough] [Cxx ...]        (default: quick, all properties)

Builds harness/catdrv.c with clang source-based coverage (no sanitizers), runs the scenarios that `./check Cxx --tier T` would
generate (same seeds, no trace validation), and prints the region / line / branch totals and every line of cat.c that no
scenario reached.  This measures the *driver*, not the specification: a line never executed is code that no recorded trace can
bind to the specification.  Informational; not part of any registered check.
"""
import os
import random
import shutil
import subprocess
import sys

HERE = os.path.dirname(os.path.abspath(__file__))
sys.path.insert(0, os.path.join(HERE, "..", "lib"))
from catlib import *          # noqa
import props                  # noqa


def main(argv):
    tier = "quick"
    pids = []
    for a in argv:
        if a in ("quick", "thorough"):
            tier = a
        else:
            pids.append(a)
    pids = pids or sorted(props.PROPS)
    seed = int(os.environ.get("VERIF_SEED", "1"))
    work = scratch_dir("cov-")
    try:
        exes = build_harness(os.path.join(work, "bin"), sanitize=False, extra=("-fprofile-instr-generate", "-fcoverage-mapping"))
        exes.pop("noproj", None)
        profs = []
        per_prop = {}
        for pid in pids:
            rng = random.Random(seed * 1000003 + int(pid[1:]))
            sid = 1
            scen = []
            for fam in props.PROPS[pid]["families"]:
                lst = fam["gen"](rng, sid, fam[tier])
                sid += len(lst)
                scen.extend(lst)
            byk = {}
            for s in scen:
                byk.setdefault(s.qcap, []).append(s)
            mine = []
            for k, lst in byk.items():
                for i in range(0, len(lst), 50):
                    base = os.path.join(work, "%s_%d_%d" % (pid, k, i))
                    write_scenarios(base + ".scn", lst[i:i + 50])
                    env = dict(os.environ, LLVM_PROFILE_FILE=base + ".profraw", CATDRV_TIMEOUT="600")
                    subprocess.run([exes[k], "/dev/null", base + ".scn"], env=env, stdout=subprocess.DEVNULL, stderr=subprocess.DEVNULL, timeout=900)
                    if os.path.exists(base + ".profraw"):
                        mine.append(base + ".profraw")
                    os.unlink(base + ".scn")
            per_prop[pid] = (len(scen), mine)
            profs += mine
        # the thread harness (C17) and the repository's own tests are not included
        merged = os.path.join(work, "all.profdata")
        subprocess.run(["llvm-profdata-14", "merge", "-sparse", "-o", merged] + profs, check=True)
        objs = []
        for k in sorted(exes):
            objs += ["-object", exes[k]]
        objs[0:1] = []      # first one is positional
        src = os.path.join(REPO, "src", "cat.c")
        rep = subprocess.run(["llvm-cov-14", "report", "-instr-profile=" + merged] + objs + [src], stdout=subprocess.PIPE, text=True).stdout
        print(rep)
        show = subprocess.run(["llvm-cov-14", "show", "-instr-profile=" + merged, "-show-branches=count"] + objs + [src],
                              stdout=subprocess.PIPE, text=True).stdout
        unc = []
        for line in show.splitlines():
            parts = line.split("|", 2)
            if len(parts) == 3 and parts[1].strip() == "0":
                unc.append("%s: %s" % (parts[0].strip(), parts[2].rstrip()))
            elif "Branch (" in line and ("True: 0" in line or "False: 0" in line):
                unc.append("   " + line.strip())
        print("lines / branch sides never executed (%d):" % len(unc))
        print("\n".join(unc))
        print("scenarios:", {p: per_prop[p][0] for p in per_prop})
    finally:
        shutil.rmtree(work, ignore_errors=True)


if __name__ == "__main__":
    main(sys.argv[1:])
