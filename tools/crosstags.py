#!/usr/bin/env python3
"""For every seeded change: which properties' monitors fire on it?  Runs the general family plus the families of the change's own
property against the patched sources and prints the multiset of tags.  Purpose: review cross-property attribution (a check for P should
not fire on a change that breaks only Q)."""
import glob, json, os, random, shutil, subprocess, sys, tempfile, collections
sys.path.insert(0, os.path.join(os.path.dirname(os.path.abspath(__file__)), "..", "lib"))


def one(d):
    meta = json.load(open(d + "/meta.json"))
    pid = meta["property"]
    w = tempfile.mkdtemp(prefix="xtag-", dir="/var/tmp")
    try:
        shutil.copytree("/repo/src", w + "/src")
        if subprocess.run(["patch", "-p1", "-s", "-d", w, "-i", d + "/patch.diff"], stdout=subprocess.PIPE, stderr=subprocess.STDOUT).returncode != 0:
            return os.path.basename(d), pid, "PATCH-FAILED"
        code = r'''
import sys, random, json, collections, os
sys.path.insert(0, "%s/lib")
import catlib
catlib.REPO = "%s"
from catlib import *
import props, bulk
rng = random.Random(4242)
scs = []
sid = 1
for fam in props.PROPS["%s"]["families"]:
    l = fam["gen"](rng, sid, max(8, fam["quick"] // 2)); sid += len(l); scs += l
if "%s" != "C17":
    w = scratch_dir("xt-")
    exes = build_harness(w + "/bin"); exes.pop("noproj", None)
    res = bulk.run_batches(scs, exes, w + "/w", keep=False)
    c = collections.Counter()
    for j in res:
        for b in j["result"]["mon"]["bad"]:
            for t in str(b["p"]).split(","):
                c[t] += 1
    import shutil; shutil.rmtree(w)
    print("TAGS", json.dumps(c))
''' % (os.path.dirname(os.path.dirname(os.path.abspath(__file__))), w, pid, pid)
        p = subprocess.run([sys.executable, "-c", code], stdout=subprocess.PIPE, stderr=subprocess.STDOUT, text=True, env=dict(os.environ, VERIF_REPO=w, VERIF_CPUS="5"))
        tags = [l for l in p.stdout.splitlines() if l.startswith("TAGS")]
        return os.path.basename(d), pid, tags[0][5:] if tags else p.stdout[-300:]
    finally:
        shutil.rmtree(w, ignore_errors=True)


if __name__ == "__main__":
    from concurrent.futures import ThreadPoolExecutor
    dirs = sorted(d for d in glob.glob(os.path.join(os.path.dirname(os.path.abspath(__file__)), "..", "seeded", "*")) if os.path.exists(d + "/meta.json"))
    with ThreadPoolExecutor(max_workers=3) as ex:
        for r in ex.map(one, dirs):
            print("%-18s %-4s %s" % r, flush=True)
