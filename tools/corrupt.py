#!/usr/bin/env python3
"""Binding demonstration: a recorded execution of the real code is accepted by the trace specification; the same recording with
one field corrupted is rejected (step-grain conformance: "drift"; and, where the corruption is observable, a monitor verdict).

  tools/corrupt.py            prints one line per corruption kind: accepted / drift / monitor tags
exit 0 iff the genuine recording is accepted and every corruption is rejected by the step-grain part.
"""
import copy
import json
import os
import random
import shutil
import sys

HERE = os.path.dirname(os.path.abspath(__file__))
sys.path.insert(0, os.path.join(HERE, "..", "lib"))
from catlib import *          # noqa
import gen                    # noqa


def scenario():
    cA = Cmd("+A", hw=True, hr=True, hx=True, vars=[Var(UINT, 1, RW, "a", vw=True, mem=b"\x05"), Var(STRING, 6, RW, "s", mem=b"ab\0\0\0\0")])
    cU = Cmd("+U", hr=True, vars=[Var(INT, 2, RW, "u", mem=b"\xfe\xff")])
    sc = Scenario(1, [cA, cU], qcap=2, bufsize=64, grain="step", auto="bhf")
    sc.hs(0, "r", "c", ret=R_DATA_NEXT, data=b"first")
    sc.hs(0, "r", "c", ret=R_DATA_OK)
    sc.hs(1, "r", "e", ret=R_DATA_OK)
    sc.feed(b"AT+A=7,\"xy\"\r\n").settle(2000)
    sc.trig(1, "r")
    sc.feed(b"AT+A?\n").settle(4000)
    sc.feed(b"AT+A\n").settle(2000)
    return sc


def first(recs, pred):
    for i, r in enumerate(recs):
        if pred(r):
            return i
    raise SystemExit("corruption target not found")


def has_ev(r, k):
    return r.get("e") == "api" and any(e.get("k") == k for e in r.get("ev", []))


CORRUPTIONS = []


def corruption(name):
    def deco(f):
        CORRUPTIONS.append((name, f))
        return f
    return deco


@corruption("one output byte changed")
def c1(recs):
    i = first(recs, lambda r: has_ev(r, "wr") and any(e["k"] == "wr" and e["b"] == 79 for e in r["ev"]))
    for e in recs[i]["ev"]:
        if e["k"] == "wr" and e["b"] == 79:
            e["b"] = 80


@corruption("one output byte dropped")
def c2(recs):
    i = first(recs, lambda r: has_ev(r, "wr") and any(e["k"] == "wr" and e["b"] == 75 for e in r["ev"]))
    recs[i]["ev"] = [e for e in recs[i]["ev"] if not (e["k"] == "wr" and e["b"] == 75)]


@corruption("handler invocation removed")
def c3(recs):
    i = first(recs, lambda r: has_ev(r, "cmd"))
    recs[i]["ev"] = [e for e in recs[i]["ev"] if e["k"] != "cmd"]


@corruption("handler return code changed (DATA_NEXT -> NEXT)")
def c4(recs):
    i = first(recs, lambda r: r.get("e") == "api" and any(e.get("k") == "cmd" and e["ret"] == R_DATA_NEXT for e in r.get("ev", [])))
    for e in recs[i]["ev"]:
        if e["k"] == "cmd":
            e["ret"] = R_NEXT


@corruption("cat_service return value changed (BUSY -> OK)")
def c5(recs):
    i = first(recs, lambda r: r.get("e") == "api" and r["f"] == "svc" and r["ret"] == 1 and has_ev(r, "rd"))
    recs[i]["ret"] = 0


@corruption("stored value changed")
def c6(recs):
    i = first(recs, lambda r: has_ev(r, "mem"))
    for e in recs[i]["ev"]:
        if e["k"] == "mem":
            e["after"] = [57]
            break


@corruption("projected state field changed (position)")
def c7(recs):
    i = first(recs, lambda r: r.get("e") == "api" and "st" in r and r["st"]["len"] > 2)
    recs[i]["st"]["len"] += 1


@corruption("two consecutive service records swapped")
def c8(recs):
    i = first(recs, lambda r: has_ev(r, "rd") and any(e["k"] == "rd" and e["b"] == 43 for e in r["ev"]))
    j = first(recs[i + 1:], lambda r: r.get("e") == "api" and r["f"] == "svc" and has_ev(r, "rd")) + i + 1
    recs[i], recs[j] = recs[j], recs[i]


@corruption("trigger result changed (OK -> BUFFER_FULL)")
def c9(recs):
    i = first(recs, lambda r: r.get("e") == "api" and r["f"] == "trigger")
    recs[i]["ret"] = -5


@corruption("is_busy answer changed while a line is in flight")
def c10(recs):
    i = first(recs, lambda r: r.get("e") == "api" and r["f"] == "is_busy" and r["ret"] == 1)
    recs[i]["ret"] = 0


def main():
    work = scratch_dir("corrupt-")
    try:
        exes = build_harness(os.path.join(work, "bin"), ks=(2,))
        exes.pop("noproj", None)
        scn = os.path.join(work, "s.scn")
        write_scenarios(scn, [scenario()])
        tr = os.path.join(work, "t.ndjson")
        run_harness(exes[2], scn, tr)
        recs0 = [json.loads(l) for l in open(tr)]
        res = validate_trace(tr)
        ok = not res["impl"]["drift"] and not res["mon"]["bad"]
        print("%-62s %s (%d records, %d steps)" % ("genuine recording", "accepted" if ok else "REJECTED", len(recs0), res["impl"]["steps"]))
        allrej = ok
        for name, f in CORRUPTIONS:
            recs = copy.deepcopy(recs0)
            f(recs)
            p = os.path.join(work, "c.ndjson")
            with open(p, "w") as out:
                for r in recs:
                    out.write(json.dumps(r, separators=(",", ":")) + "\n")
            r = validate_trace(p)
            drift = r["impl"]["drift"]
            tags = sorted({t for b in r["mon"]["bad"] for t in str(b["p"]).split(",")})
            print("%-62s %s%s" % (name, ("drift(%s)" % drift[0]["why"]) if drift else "ACCEPTED", (" monitors: " + ",".join(tags)) if tags else ""))
            if not drift:
                allrej = False
        return 0 if allrej else 1
    finally:
        shutil.rmtree(work, ignore_errors=True)


if __name__ == "__main__":
    sys.exit(main())
