#!/bin/sh
# time every model-checking configuration (quick and thorough constants); prints: config, exit, wall seconds, states
cd "$(dirname "$0")/../spec"
W=${VERIF_CPUS:-16}
for c in MC_Line MC_Line7 MC_Hist MC_Args MC_Flags MC_Codes MC_Sched MC_Ring MC_Hold MC_HoldNest MC_Mutex MC_List MC_Live MC_Ext MC_Threads MC_FnNum MC_FnBuf; do
  for v in ${MCTIME_VARIANTS:-"" _t}; do
    cfg=$c$v; [ -f $cfg.cfg ] || continue
    case $c in MC_HoldNest) mod=MC_Hold;; MC_Line7) mod=MC_Line;; MC_Threads) mod=CatThreads;; MC_FnNum|MC_FnBuf) mod=MC_Fn;; *) mod=$c;; esac
    md=$(mktemp -d /var/tmp/mctime-XXXX); s=$(date +%s)
    out=$(JAVA_TOOL_OPTIONS="-Xmx12g -Xss512m -XX:+UseParallelGC" timeout 3000 tlc -noGenerateSpecTE -workers $W -metadir $md -config $cfg.cfg $mod.tla 2>&1); rc=$?
    rm -rf $md
    echo "$cfg rc=$rc $(( $(date +%s) - s ))s $(echo "$out" | grep -E "distinct states found, 0 states left|Error:" | tail -1 | cut -c1-120)"
  done
done
