#!/usr/bin/env python3
"""Re-run the property's check against every stored seeded change (/verif/seeded/*/patch.diff applies to /repo HEAD) and refresh meta.json.
usage: reseed.py [name-substring ...] [--tier quick|thorough] [-j N]"""
import glob, json, os, shutil, subprocess, sys, tempfile, time
from concurrent.futures import ThreadPoolExecutor

VERIF = os.path.dirname(os.path.dirname(os.path.abspath(__file__)))


def one(d, tier):
    meta = json.load(open(d + "/meta.json"))
    pid = meta["property"]
    w = tempfile.mkdtemp(prefix="reseed-", dir="/var/tmp")
    try:
        shutil.copytree("/repo/src", w + "/src")
        p = subprocess.run(["patch", "-p1", "-s", "-d", w, "-i", d + "/patch.diff"], stdout=subprocess.PIPE, stderr=subprocess.STDOUT, text=True)
        if p.returncode != 0:
            return os.path.basename(d), pid, "PATCH-FAILED", p.stdout[-200:]
        env = dict(os.environ, VERIF_REPO=w, VERIF_EVID_DIR=w + "/evidence", VERIF_CPUS="6")
        t0 = time.time()
        c = subprocess.run([VERIF + "/check", pid, "--tier", tier], stdout=subprocess.PIPE, stderr=subprocess.STDOUT, text=True, env=env)
        lines = [l for l in c.stdout.splitlines() if l.startswith("VIOLATION") or l.startswith("  reason") or l.startswith(pid)]
        meta["check"] = {"cmd": "VERIF_REPO=<copy of /repo/src with patch.diff applied> ./check %s --tier %s" % (pid, tier), "exit": c.returncode,
                         "wall_s": round(time.time() - t0, 1), "lines": lines[:6]}
        meta["detected"] = c.returncode == 1
        json.dump(meta, open(d + "/meta.json", "w"), indent=1)
        return os.path.basename(d), pid, "DETECTED" if c.returncode == 1 else "MISSED" if c.returncode == 0 else "MACHINERY", (lines[1] if len(lines) > 1 else (lines[0] if lines else c.stdout[-300:]))[:160]
    finally:
        shutil.rmtree(w, ignore_errors=True)


def main():
    args = [a for a in sys.argv[1:] if not a.startswith("-")]
    tier = sys.argv[sys.argv.index("--tier") + 1] if "--tier" in sys.argv else "quick"
    j = int(sys.argv[sys.argv.index("-j") + 1]) if "-j" in sys.argv else 3
    args = [a for a in args if a not in (tier, str(j))]
    dirs = sorted(d for d in glob.glob(VERIF + "/seeded/*") if os.path.exists(d + "/meta.json") and (not args or any(a in d for a in args)))
    rows = []
    with ThreadPoolExecutor(max_workers=j) as ex:
        for r in ex.map(lambda d: one(d, tier), dirs):
            rows.append(r)
            print("%-10s %-4s %-12s %s" % (r[2], r[1], r[0], r[3]), flush=True)
    # the table lists every stored change with the outcome of its most recent run (meta.json), not only the ones re-run now
    with open(VERIF + "/seeded/RESULTS.md", "w") as f:
        f.write("# Seeded changes (written by independent sub-agents) against the property's own check (tools/seedeval.py / tools/reseed.py; most recent run of each)\n\n"
                "| change | property | result | first reason |\n|---|---|---|---|\n")
        n = det = 0
        for d in sorted(glob.glob(VERIF + "/seeded/*/meta.json")):
            m = json.load(open(d))
            lines = m.get("check", {}).get("lines", [])
            reason = (lines[1] if len(lines) > 1 else (lines[0] if lines else ""))[:160].replace("|", "/")
            res = "DETECTED" if m.get("detected") else ("MACHINERY" if m.get("check", {}).get("exit") not in (0, 1) else "MISSED")
            n += 1
            det += 1 if m.get("detected") else 0
            f.write("| %s | %s | %s | %s |\n" % (os.path.basename(os.path.dirname(d)), m.get("property"), res, reason))
        f.write("\n%d of %d detected\n" % (det, n))
    miss = [r for r in rows if r[2] != "DETECTED"]
    print("%d/%d detected" % (len(rows) - len(miss), len(rows)))
    return 1 if miss else 0


if __name__ == "__main__":
    sys.exit(main())
