#!/bin/sh
# run every property's check (default quick) and print one summary line each
tier=${1:-quick}
cd "$(dirname "$0")/.."
for i in 01 02 03 04 05 06 07 08 09 10 11 12 13 14 15 16 17 18 19 20; do
    s=$(date +%s)
    out=$(./check C$i --tier $tier 2>&1); rc=$?
    echo "rc=$rc $(( $(date +%s) - s ))s $(echo "$out" | grep -E "^C$i tier" | tail -1)"
    [ $rc -ne 0 ] && echo "$out" | grep -E "VIOLATION|reason|MACHINERY|Error" | head -5
done
