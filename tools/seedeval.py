#!/usr/bin/env python3
"""Evaluate a seeded change produced by a sub-agent: confirm (tests pass, demo fails with / passes without the change),
run the property's check against it, and store it under /verif/seeded/<name>/.

usage: seedeval.py <pid> <dir-with-patch.diff-demo.c-notes.md> [name] [--tier quick|thorough] [--keep-only-if-confirmed]
"""
import json, os, shutil, subprocess, sys, tempfile, time

VERIF = os.path.dirname(os.path.dirname(os.path.abspath(__file__)))


def sh(cmd, **kw):
    return subprocess.run(cmd, shell=True, stdout=subprocess.PIPE, stderr=subprocess.STDOUT, text=True, **kw)


def main():
    pid, src = sys.argv[1], sys.argv[2]
    name = sys.argv[3] if len(sys.argv) > 3 and not sys.argv[3].startswith("--") else pid + "-agent1"
    tier = sys.argv[sys.argv.index("--tier") + 1] if "--tier" in sys.argv else "quick"
    d = tempfile.mkdtemp(prefix="seedeval-", dir="/var/tmp")
    meta = {"property": pid, "name": name, "ran": []}
    try:
        for x in ("src", "tests", "example", "CMakeLists.txt"):
            sh("cp -r /repo/%s %s/" % (x, d))
        os.makedirs(d + "/scratch")
        shutil.copy(src + "/demo.c", d + "/scratch/demo.c")
        # demo on the unchanged sources
        r0 = sh("cc -pthread -I%s/src -o %s/scratch/demo0 %s/scratch/demo.c 2>&1 && cd %s/scratch && timeout 120 ./demo0" % (d, d, d, d))
        meta["demo_without_change_exit"] = r0.returncode
        # the agent's worktree may be a few commits behind /repo: apply with a 3-way merge in a throw-away worktree of HEAD
        wt = d + "/wt"
        sh("git -C /repo worktree add -q --detach %s HEAD" % wt)
        p = sh("git -C %s apply --3way %s/patch.diff 2>&1" % (wt, os.path.abspath(src)))
        sh("cp %s/src/cat.c %s/src/cat.h %s/src/" % (wt, wt, d))
        sh("git -C /repo worktree remove --force %s" % wt)
        if "conflict" in p.stdout.lower() or "<<<<<<<" in open(d + "/src/cat.c").read():
            print("PATCH CONFLICT", p.stdout[-500:]); return 2
        sh("git -C /repo diff --no-index /repo/src %s/src > %s/rebased.diff" % (d, d))
        if sh("diff -q /repo/src/cat.c %s/src/cat.c" % d).returncode == 0 and sh("diff -q /repo/src/cat.h %s/src/cat.h" % d).returncode == 0:
            print("PATCH DID NOT APPLY", p.stdout[-500:]); return 2
        r1 = sh("cc -pthread -I%s/src -o %s/scratch/demo1 %s/scratch/demo.c 2>&1 && cd %s/scratch && timeout 120 ./demo1" % (d, d, d, d))
        meta["demo_with_change_exit"] = r1.returncode
        meta["demo_output_with_change"] = r1.stdout[-600:]
        t = sh("cmake -G Ninja -S %s -B %s/_build >/dev/null 2>&1 && cmake --build %s/_build 2>&1 | tail -3 && ctest --test-dir %s/_build -j8 2>&1 | tail -3" % (d, d, d, d))
        meta["tests"] = t.stdout[-300:]
        meta["tests_pass"] = "100% tests passed" in t.stdout
        meta["confirmed"] = meta["tests_pass"] and r0.returncode == 0 and r1.returncode != 0
        shutil.rmtree(d + "/_build", ignore_errors=True)
        t0 = time.time()
        env = dict(os.environ, VERIF_REPO=d, VERIF_EVID_DIR=d + "/evidence")
        c = subprocess.run([VERIF + "/check", pid, "--tier", tier], stdout=subprocess.PIPE, stderr=subprocess.STDOUT, text=True, env=env)
        lines = [l for l in c.stdout.splitlines() if l.startswith("VIOLATION") or l.startswith("  reason") or l.startswith("KNOWN") or l.startswith(pid)]
        meta["check"] = {"cmd": "VERIF_REPO=<patched copy> ./check %s --tier %s" % (pid, tier), "exit": c.returncode, "wall_s": round(time.time() - t0, 1), "lines": lines[:6]}
        meta["detected"] = c.returncode == 1
        if c.returncode not in (0, 1):
            meta["check"]["tail"] = c.stdout[-1500:]
        notes = open(src + "/notes.md").read() if os.path.exists(src + "/notes.md") else ""
        meta["needs"] = notes[:1500]
        out = os.path.join(VERIF, "seeded", name)
        os.makedirs(out, exist_ok=True)
        for f in ("patch.diff", "demo.c", "notes.md"):
            if os.path.exists(src + "/" + f):
                shutil.copy(src + "/" + f, out + "/" + ("patch.orig.diff" if f == "patch.diff" else f))
        # patch.diff = the same change against the current /repo HEAD (git -C /repo apply patch.diff)
        rb = sh("cd %s && diff -u /repo/src/cat.c src/cat.c | sed -e 's#^--- /repo/src/cat.c.*#--- a/src/cat.c#' -e 's#^+++ src/cat.c.*#+++ b/src/cat.c#'; diff -u /repo/src/cat.h src/cat.h | sed -e 's#^--- /repo/src/cat.h.*#--- a/src/cat.h#' -e 's#^+++ src/cat.h.*#+++ b/src/cat.h#'" % d)
        open(out + "/patch.diff", "w").write(rb.stdout)
        json.dump(meta, open(out + "/meta.json", "w"), indent=1)
        print(json.dumps({k: meta[k] for k in ("name", "confirmed", "tests_pass", "demo_without_change_exit", "demo_with_change_exit", "detected")}), meta["check"]["lines"][:3])
        return 0
    finally:
        shutil.rmtree(d, ignore_errors=True)


if __name__ == "__main__":
    sys.exit(main())
