#!/usr/bin/env python3
"""False-alarm test: run the registered checks against a behaviour-preserving refactoring of cat.c.

usage: refeval.py <name> <dir-with-patch.diff[-notes.md]> [Cxx ...]          (default: all properties, quick tier)

The patch is applied (3-way) to a scratch copy of /repo outside /repo and /verif, the repository's tests are run on it, then
`VERIF_REPO=<copy> ./check Cxx` for every property.  Expected: exit 0 everywhere (impl_conformance may say "drift": the
step-grain transcription CatImpl follows the pinned code, the verdict comes from the monitors).  Results are stored in
/verif/refactor/<name>/ (patch.diff, notes.md, meta.json).  The copy is removed afterwards.
"""
import json, os, shutil, subprocess, sys, tempfile, time

VERIF = os.path.dirname(os.path.dirname(os.path.abspath(__file__)))


def sh(cmd, **kw):
    return subprocess.run(cmd, shell=True, stdout=subprocess.PIPE, stderr=subprocess.STDOUT, text=True, **kw)


def main():
    name, src = sys.argv[1], os.path.abspath(sys.argv[2])
    pids = sys.argv[3:] or ["C%02d" % i for i in range(1, 21)]
    d = tempfile.mkdtemp(prefix="refeval-", dir="/var/tmp")
    meta = {"name": name, "checks": {}}
    try:
        for x in ("src", "tests", "example", "CMakeLists.txt"):
            sh("cp -r /repo/%s %s/" % (x, d))
        wt = d + "/wt"
        sh("git -C /repo worktree add -q --detach %s HEAD" % wt)
        p = sh("git -C %s apply --3way %s/patch.diff 2>&1" % (wt, src))
        sh("cp %s/src/cat.c %s/src/cat.h %s/src/" % (wt, wt, d))
        sh("git -C /repo worktree remove --force %s" % wt)
        if "conflict" in p.stdout.lower() or "<<<<<<<" in open(d + "/src/cat.c").read():
            print("PATCH CONFLICT", p.stdout[-500:]); return 2
        ds = sh("diff -u /repo/src/cat.c %s/src/cat.c | grep -c '^[-+][^-+]'" % d).stdout.strip()
        meta["changed_lines"] = int(ds or 0)
        if meta["changed_lines"] == 0:
            print("PATCH DID NOT APPLY", p.stdout[-500:]); return 2
        t = sh("cmake -G Ninja -S %s -B %s/_build >/dev/null 2>&1 && cmake --build %s/_build 2>&1 | tail -3 && ctest --test-dir %s/_build -j8 2>&1 | tail -3" % (d, d, d, d))
        meta["tests_pass"] = "100% tests passed" in t.stdout
        shutil.rmtree(d + "/_build", ignore_errors=True)
        if not meta["tests_pass"]:
            print("TESTS FAIL", t.stdout[-500:]); return 2
        out = os.path.join(VERIF, "refactor", name)
        os.makedirs(out, exist_ok=True)
        rb = sh("cd %s && diff -u /repo/src/cat.c src/cat.c | sed -e 's#^--- /repo/src/cat.c.*#--- a/src/cat.c#' -e 's#^+++ src/cat.c.*#+++ b/src/cat.c#'; diff -u /repo/src/cat.h src/cat.h | sed -e 's#^--- /repo/src/cat.h.*#--- a/src/cat.h#' -e 's#^+++ src/cat.h.*#+++ b/src/cat.h#'" % d)
        open(out + "/patch.diff", "w").write(rb.stdout)
        if os.path.exists(src + "/notes.md"):
            shutil.copy(src + "/notes.md", out + "/notes.md")
        bad = 0
        for pid in pids:
            t0 = time.time()
            env = dict(os.environ, VERIF_REPO=d, VERIF_EVID_DIR=d + "/evidence")
            c = subprocess.run([VERIF + "/check", pid, "--tier", "quick"], stdout=subprocess.PIPE, stderr=subprocess.STDOUT, text=True, env=env)
            summ = [l for l in c.stdout.splitlines() if l.startswith(pid + " tier")]
            lines = [l for l in c.stdout.splitlines() if l.startswith("VIOLATION") or l.startswith("  reason") or l.startswith("KNOWN")]
            meta["checks"][pid] = {"exit": c.returncode, "wall_s": round(time.time() - t0, 1), "summary": summ[-1] if summ else "", "lines": lines[:8]}
            if c.returncode != 0:
                bad += 1
                meta["checks"][pid]["tail"] = c.stdout[-2500:]
                # keep the replay files of an alarm for the analysis
                for l in lines:
                    if "replay=" in l:
                        rp = l.split("replay=")[1].split()[0]
                        if os.path.exists(rp):
                            shutil.copy(rp, out + "/" + pid + "-" + os.path.basename(rp))
            print(name, pid, "rc=%d" % c.returncode, summ[-1] if summ else "", flush=True)
        meta["alarms"] = bad
        json.dump(meta, open(out + "/meta.json", "w"), indent=1)
        print("%s: %d checks, %d alarms" % (name, len(pids), bad))
        return 0 if bad == 0 else 1
    finally:
        shutil.rmtree(d, ignore_errors=True)


if __name__ == "__main__":
    sys.exit(main())
