"""Per-property registry: model-checking configurations and scenario families (DESIGN.md sections 6 and 8)."""
import os
import re
import time

from catlib import *
import gen

COMMON_ASSUMPTIONS = [
    "supported domain of DESIGN.md section 5 (descriptor accepted by cat_init, command buffer >= 6 bytes and >= ceil(commands/4), "
    "io read returns 0/1, handlers keep the response buffer NUL-terminated and eventually return a terminal code, event handlers never return HOLD, "
    "flags change only between command lines)",
    "the harness (harness/catdrv.c) reports callbacks, return values and variable storage faithfully; TLC and the CommunityModules JSON reader are trusted",
    "small-scope hypothesis for the model-checking stage; random corpora for sizes beyond it",
]


def run_mc(mc, tier, work):
    """Run one model-checking configuration. mc: {name, module, cfg, workers, heap, timeout, exhaustive}"""
    t0 = time.time()
    cfg = mc.get("cfg_thorough") if tier == "thorough" and mc.get("cfg_thorough") else mc["cfg"]
    rc, out = tlc(mc["module"], cfg=cfg, workers=mc.get("workers", NCPU), heap=mc.get("heap", "8g"),
                  timeout=mc.get("timeout_thorough", 1500) if tier == "thorough" else mc.get("timeout", 300),
                  metadir=os.path.join(work, "md-" + mc["name"] + "-" + cfg), extra=mc.get("extra", ()))
    gen_, dist = tlc_stats(out)
    depth = re.findall(r"depth of the complete state graph search is (\d+)", out)
    ok = rc == 0 and "Model checking completed. No error has been found" in out
    return {"name": mc["name"] + ":" + cfg, "ok": ok, "rc": rc, "generated": gen_, "distinct": dist, "wall_s": round(time.time() - t0, 1),
            "exhaustive": ok and mc.get("exhaustive", True), "depth": int(depth[-1]) if depth else 0, "tail": out[-3000:],
            "evaluations": dist if mc.get("function_level") else 0}


def fam_general(**kw):
    def g(rng, sid0, n):
        out = []
        for i in range(n):
            s = gen.gen_general(rng, sid0 + i, **kw)
            s.meta["sig"] = (len(s.cmds()), s.qcap, s.acap, s.ucap, s.mutex, len(s.lines))
            out.append(s)
        return out
    return g


GENERAL = {"name": "fam_general", "gen": fam_general(lines=4), "quick": 120, "thorough": 2500}

PROPS = {}
for _i in range(1, 21):
    PROPS["C%02d" % _i] = {"families": [GENERAL], "mc": [],
                           "rule": "seeded random scenarios (tables, lines, schedules, triggers, holds, handler scripts) executed on the real code; "
                                   "every recorded API call validated against CatImpl and judged by the CatMon monitors"}
