"""Per-property registry: model-checking configurations and scenario families (DESIGN.md sections 6 and 8)."""
import os
import re
import time

from catlib import *
import gen

COMMON_ASSUMPTIONS = [
    "supported domain of DESIGN.md section 5 (descriptor accepted by cat_init, command buffer >= 6 bytes and >= ceil(commands/4), "
    "io read returns 0/1, handlers keep the response buffer NUL-terminated and eventually return a terminal code, event handlers never return HOLD, "
    "flags change only between command lines)",
    "the harness (harness/catdrv.c) reports callbacks, return values and variable storage faithfully; TLC and the CommunityModules JSON reader are trusted",
    "small-scope hypothesis for the model-checking stage; random corpora for sizes beyond it",
]


def run_mc(mc, tier, work):
    """Run one model-checking configuration. mc: {name, module, cfg, workers, heap, timeout, exhaustive}"""
    t0 = time.time()
    cfg = mc.get("cfg_thorough") if tier == "thorough" and mc.get("cfg_thorough") else mc["cfg"]
    rc, out = tlc(mc["module"], cfg=cfg, workers=mc.get("workers", NCPU), heap=mc.get("heap", "8g"),
                  timeout=mc.get("timeout_thorough", 1500) if tier == "thorough" else mc.get("timeout", 300),
                  metadir=os.path.join(work, "md-" + mc["name"] + "-" + cfg), extra=mc.get("extra", ()))
    gen_, dist = tlc_stats(out)
    depth = re.findall(r"depth of the complete state graph search is (\d+)", out)
    ok = rc == 0 and "Model checking completed. No error has been found" in out
    return {"name": mc["name"] + ":" + cfg, "ok": ok, "rc": rc, "generated": gen_, "distinct": dist, "wall_s": round(time.time() - t0, 1),
            "exhaustive": ok and mc.get("exhaustive", True), "depth": int(depth[-1]) if depth else 0, "tail": out[-3000:],
            "evaluations": dist if mc.get("function_level") else 0}


def fam_general(**kw):
    def g(rng, sid0, n):
        out = []
        for i in range(n):
            s = gen.gen_general(rng, sid0 + i, **kw)
            s.meta["sig"] = (len(s.cmds()), s.qcap, s.acap, s.ucap, s.mutex, len(s.lines))
            out.append(s)
        return out
    return g


import families as F

GENERAL = {"name": "fam_general", "gen": fam_general(lines=4), "quick": 120, "thorough": 2500}
GENERAL_S = {"name": "fam_general", "gen": fam_general(lines=4), "quick": 50, "thorough": 1000}


def fam(name, quick, thorough):
    return {"name": name, "gen": getattr(F, name), "quick": quick, "thorough": thorough}


PROPS = {}
for _i in range(1, 21):
    PROPS["C%02d" % _i] = {"families": [GENERAL], "mc": [],
                           "rule": "seeded random scenarios (tables, lines, schedules, triggers, holds, handler scripts) executed on the real code; "
                                   "every recorded API call validated against CatImpl and judged by the CatMon monitors"}

PROPS["C01"]["families"] = [GENERAL_S, fam("fam_prefix", 40, 800)]
PROPS["C02"]["families"] = [GENERAL_S, fam("fam_prefix", 30, 500), fam("fam_lanes", 20, 200), fam("fam_casefold", 10, 200)]
PROPS["C04"]["families"] = [GENERAL_S, fam("fam_num", 60, 1500)]
PROPS["C19"]["families"] = [GENERAL_S, fam("fam_desc", 60, 1500)]

def mc(name, quick=True, **kw):
    d = {"name": name, "module": name, "cfg": name, "cfg_thorough": name + "_t", "quick": quick, "timeout": 400, "timeout_thorough": 3000}
    d.update(kw)
    return d


MC = {
    "C01": [mc("MC_Line")], "C02": [mc("MC_Line")], "C03": [mc("MC_Line"), mc("MC_Args")], "C04": [mc("MC_Args")], "C05": [mc("MC_Args")],
    "C06": [mc("MC_Line")], "C07": [mc("MC_Args")], "C08": [mc("MC_Args")], "C09": [mc("MC_Flags")], "C10": [mc("MC_Codes")],
    "C11": [mc("MC_Sched")], "C12": [mc("MC_Sched")], "C13": [mc("MC_Ring"), mc("MC_Sched")], "C14": [mc("MC_Hold")],
    "C15": [mc("MC_Live"), mc("MC_Sched", quick=False)], "C16": [mc("MC_Mutex")], "C17": [], "C18": [mc("MC_Sched"), mc("MC_Hold")],
    "C19": [mc("MC_List")], "C20": [mc("MC_Hist")],
}
for _p, _l in MC.items():
    PROPS[_p]["mc"] = _l

HOOK_COMMITS = []
NOT_YET = {}
_T = "TLA+ specification checked with TLC; conformance by trace validation of real executions (TLC evaluates CatImpl and the CatMon monitors on every recorded call)"
CLAIMS = {
    "C01": {"text": "Monitor C01 (pending-line / read-ahead / result-code accounting) is evaluated by TLC on every recorded execution of the real parser: general random corpus plus the prefix x suffix x registration-order sweep; the same executions are checked call by call against CatImpl.",
            "note": "bounded: finite seeded corpora; lines of the sweep family are exhaustive per generated table only", "technique": _T},
    "C02": {"text": "LineOutcome (declarative name resolution and suffix rule of CatOracle) predicts for every consumed line which handler may run; TLC compares it with the handler events of the real code over random tables, the prefix sweep, bit-lane tables of 4..64 commands and the case-fold family.",
            "note": "duplicate names follow 'first FULL in registration order'; bounded corpora", "technique": _T},
    "C04": {"text": "DecodeVar (digit-sequence arithmetic, no machine integers) predicts acceptance and the stored value of every numeric argument; TLC compares result code, callbacks and variable storage of the real code over boundary and adversarial digit strings (up to buffer capacity, beyond 2^64) for every type x width x access x position.",
            "note": "values are compared as canonical digit strings produced by the harness from the variable's bytes", "technique": _T},
    "C15": {"text": "Monitor: whenever cat_service returns OK nothing may be owed (no unanswered line, no owed output unit, no pending event) and a repeated call without stimulus must be a stutter; every scenario ends with a bounded settle loop whose failure is a violation.",
            "note": "liveness is checked as bounded quiescence on executions (call budget per settle); the model-checking liveness configuration is not yet part of this check", "technique": _T},
    "C18": {"text": "cat_is_busy / cat_is_hold are queried after every cat_service call in the general family; the monitor knows partial lines, unanswered lines and open output units from the observable events and flags an OK answer while any of them exists, and a BUSY answer at quiescence.",
            "note": "between the last byte of a unit and quiescence either answer is accepted", "technique": _T},
    "C19": {"text": "TestText / ListBlocks (CatOracle) predict the '=?' response and the command list from the descriptor; TLC matches the output bytes of the real code against them over random descriptors (types x widths x access x flags x handler subsets x groups) and capacities around the text length, by line and by event.",
            "note": "consistency 'advertised form is accepted' follows from the dispatcher oracle (LineOutcome) being checked on the same tables", "technique": _T},
}

PROPS["C03"]["families"] = [GENERAL_S, fam("fam_bounds", 40, 800), fam("fam_buf", 20, 400), fam("fam_num", 20, 400)]
PROPS["C05"]["families"] = [GENERAL_S, fam("fam_buf", 60, 1500)]
PROPS["C06"]["families"] = [GENERAL_S, fam("fam_bounds", 50, 1000)]
PROPS["C07"]["families"] = [fam("fam_round", 40, 1500), fam("fam_round_exh8", 12, 60), fam("fam_access", 20, 300)]
PROPS["C08"]["families"] = [GENERAL_S, fam("fam_access", 60, 1500)]
PROPS["C09"]["families"] = [GENERAL_S, fam("fam_flags", 40, 1000)]
PROPS["C10"]["families"] = [GENERAL_S, fam("fam_codes", 40, 1000)]
PROPS["C11"]["families"] = [GENERAL_S, fam("fam_sched", 48, 1200)]
PROPS["C12"]["families"] = [GENERAL_S, fam("fam_sched", 48, 1200)]
PROPS["C13"]["families"] = [GENERAL_S, fam("fam_ring", 24, 400), fam("fam_quiesce", 10, 200)]
PROPS["C14"]["families"] = [GENERAL_S, fam("fam_hold", 40, 800)]
PROPS["C15"]["families"] = [GENERAL_S, fam("fam_quiesce", 40, 800), fam("fam_sched", 16, 200)]
PROPS["C16"]["families"] = [fam("fam_mutex", 64, 1600), {"name": "fam_general_mutex", "gen": fam_general(lines=3, mutex=True), "quick": 30, "thorough": 600}]
PROPS["C18"]["families"] = [GENERAL_S, fam("fam_sched", 32, 800), fam("fam_hold", 16, 300)]
PROPS["C20"]["families"] = [GENERAL_S, fam("fam_hist", 80, 2000)]
