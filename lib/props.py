"""Per-property registry: model-checking configurations and scenario families (DESIGN.md sections 6 and 8)."""
import os
import re
import time

from catlib import *
import gen

COMMON_ASSUMPTIONS = [
    "supported domain of DESIGN.md section 5 (descriptor accepted by cat_init, command buffer >= 6 bytes and >= ceil(commands/4), "
    "io read returns 0/1, handlers keep the response buffer NUL-terminated and eventually return a terminal code, event handlers never return HOLD, "
    "flags change only between command lines)",
    "the harness (harness/catdrv.c) reports callbacks, return values and variable storage faithfully; TLC and the CommunityModules JSON reader are trusted",
    "small-scope hypothesis for the model-checking stage; random corpora for sizes beyond it",
]


def run_apalache_ring(work):
    """Unbounded argument for the ring (C13): inductive invariant of spec/CatRing.tla for every capacity 1..8, with Apalache."""
    import subprocess, shutil
    t0 = time.time()
    d = os.path.join(work, "apalache")
    os.makedirs(d, exist_ok=True)
    shutil.copy(os.path.join(SPEC, "CatRing.tla"), d)
    outs = []
    for init, length in (("Init", 0), ("IndInit", 1)):
        p = subprocess.run(["timeout", "900", "apalache-mc", "check", "--cinit=CInit", "--init=" + init, "--inv=IndInv", "--length=%d" % length,
                            "--out-dir=" + os.path.join(d, "out"), "CatRing.tla"], cwd=d, stdout=subprocess.PIPE, stderr=subprocess.STDOUT, text=True)
        outs.append(p.stdout)
        if "The outcome is: NoError" not in p.stdout:
            return {"name": "Apalache:CatRing", "ok": False, "rc": p.returncode, "generated": 0, "distinct": 0, "wall_s": round(time.time() - t0, 1),
                    "exhaustive": False, "depth": length, "tail": p.stdout[-3000:], "evaluations": 0}
    return {"name": "Apalache:CatRing(IndInv, capacities 1..8)", "ok": True, "rc": 0, "generated": 0, "distinct": 0, "wall_s": round(time.time() - t0, 1),
            "exhaustive": True, "depth": 1, "tail": "", "evaluations": 2, "obligations": 2, "discharged": 2}


def run_mc(mc, tier, work):
    if mc.get("apalache"):
        return run_apalache_ring(work)
    """Run one model-checking configuration. mc: {name, module, cfg, workers, heap, timeout, exhaustive}"""
    t0 = time.time()
    cfg = mc.get("cfg_thorough") if tier == "thorough" and mc.get("cfg_thorough") else mc["cfg"]
    rc, out = tlc(mc["module"], cfg=cfg, workers=mc.get("workers", NCPU), heap=mc.get("heap", "8g"),
                  timeout=mc.get("timeout_thorough", 1500) if tier == "thorough" else mc.get("timeout", 300),
                  metadir=os.path.join(work, "md-" + mc["name"] + "-" + cfg), extra=mc.get("extra", ()))
    gen_, dist = tlc_stats(out)
    depth = re.findall(r"depth of the complete state graph search is (\d+)", out)
    ok = rc == 0 and "Model checking completed. No error has been found" in out
    return {"name": mc["name"] + ":" + cfg, "ok": ok, "rc": rc, "generated": gen_, "distinct": dist, "wall_s": round(time.time() - t0, 1),
            "exhaustive": ok and mc.get("exhaustive", True), "depth": int(depth[-1]) if depth else 0, "tail": out[-3000:],
            "evaluations": dist if mc.get("function_level") else 0}


def fam_general(**kw):
    def g(rng, sid0, n):
        out = []
        for i in range(n):
            s = gen.gen_general(rng, sid0 + i, **kw)
            s.meta["sig"] = (len(s.cmds()), s.qcap, s.acap, s.ucap, s.mutex, len(s.lines))
            out.append(s)
        return out
    return g


import families as F

GENERAL = {"name": "fam_general", "gen": fam_general(lines=4), "quick": 120, "thorough": 2500}
GENERAL_S = {"name": "fam_general", "gen": fam_general(lines=4), "quick": 50, "thorough": 1000}


def fam(name, quick, thorough):
    return {"name": name, "gen": getattr(F, name), "quick": quick, "thorough": thorough}


PROPS = {}
for _i in range(1, 21):
    PROPS["C%02d" % _i] = {"families": [GENERAL], "mc": [],
                           "rule": "seeded random scenarios (tables, lines, schedules, triggers, holds, handler scripts) executed on the real code; "
                                   "every recorded API call validated against CatImpl and judged by the CatMon monitors"}

PROPS["C01"]["families"] = [GENERAL_S, fam("fam_prefix", 40, 800)]
PROPS["C02"]["families"] = [GENERAL_S, fam("fam_prefix", 30, 500), fam("fam_lanes", 20, 200), fam("fam_casefold", 10, 200), fam("fam_lanes_wide", 12, 36), fam("fam_implicit", 24, 400), fam("fam_samename", 24, 288)]
PROPS["C04"]["families"] = [GENERAL_S, fam("fam_num", 60, 1500), fam("fam_bytes", 16, 64)]
PROPS["C19"]["families"] = [GENERAL_S, fam("fam_desc", 60, 1500), fam("fam_textfit", 64, 1600)]

def mc(name, quick=True, **kw):
    d = {"name": name, "module": name, "cfg": name, "cfg_thorough": name + "_t", "quick": quick, "timeout": 600, "timeout_thorough": 6000}
    d.update(kw)
    return d


MC = {
    "C01": [mc("MC_Line")], "C02": [mc("MC_Line"), mc("MC_Line7", module="MC_Line", quick=False, cfg="MC_Line7", cfg_thorough="MC_Line7")], "C03": [mc("MC_Line"), mc("MC_Args")], "C04": [mc("MC_Args"), mc("MC_FnNum", module="MC_Fn", function_level=True)], "C05": [mc("MC_Args"), mc("MC_FnBuf", module="MC_Fn", function_level=True)],
    "C06": [mc("MC_Line")], "C07": [mc("MC_FnNum", module="MC_Fn", function_level=True), mc("MC_FnBuf", module="MC_Fn", function_level=True)], "C08": [mc("MC_Args"), mc("MC_FnBuf", module="MC_Fn", function_level=True)], "C09": [mc("MC_Flags")], "C10": [mc("MC_Codes"), mc("MC_Ext", quick=False)],
    "C11": [mc("MC_Sched")], "C12": [mc("MC_Sched")], "C13": [mc("MC_Ring"), mc("MC_Sched"), mc("MC_Ext"), {"name": "Apalache_CatRing", "apalache": True, "quick": True}], "C14": [mc("MC_Hold"), mc("MC_HoldNest", module="MC_Hold", quick=False, cfg="MC_HoldNest", cfg_thorough="MC_HoldNest")],
    "C15": [mc("MC_Live"), mc("MC_Sched", quick=False)], "C16": [mc("MC_Mutex")], "C17": [mc("MC_Threads", module="CatThreads")], "C18": [mc("MC_Sched"), mc("MC_Hold")],
    "C19": [mc("MC_List")], "C20": [mc("MC_Hist")],
}
for _p, _l in MC.items():
    PROPS[_p]["mc"] = _l

HOOK_COMMITS = ["ac6a386"]
NOT_YET = {}
_T = "explicit TLA+ specification (CatImpl + CatOracle + CatMon) model-checked with TLC (CatSys configurations); bound to cat.c by TLC trace validation of recorded executions (CatTrace: step-grain conformance to CatImpl plus observable-grain property monitors)"
_N = "bounded: the model-checking configurations use small constants (stated in spec/MC_*.cfg) and the executions are finite seeded corpora; verdicts come from the CatMon monitors on executions of the real code, CatImpl mismatches without a monitor hit are recorded as drift only"


def _c(text, note=_N, technique=_T):
    return {"text": text, "note": note, "technique": technique}


CLAIMS = {
    "C01": _c("MC_Line: all input streams of <= 5 (thorough 6; 7 on the implicit-write and equal-ignoring-case tables) bytes over a 9-symbol alphabet against 6 tables, NoBad + AckAfterLF. Executions: general corpus and the prefix x suffix x registration-order sweep; the monitor accounts for every consumed byte and every result code (pending line, read-ahead, stray code)."),
    "C02": _c("LineOutcome (declarative name resolution and suffix rule, CatOracle) is compared by TLC with the handler events of CatImpl for all inputs of MC_Line and with those of the real code over random tables, the prefix sweep, bit-lane tables of 4..64 commands, the case-fold family and tables whose names are equal ignoring case in every registration order and implicit-write mask; even while the monitor is otherwise lost, a handler must belong to the last consumed line."),
    "C03": _c("Model: BoundsOk (every store index inside its buffer half) in MC_Line / MC_Args at capacities 6..10. Executions: every family runs on an ASan+UBSan build with canaries around both buffers and every variable and a byte-compare of the idle machine's buffer half; capacity-boundary, exact-fit match-bit and argument-length families.",
              "the specification decides index arithmetic and half isolation; other undefined behaviour (signed overflow, misaligned access) is observed by the sanitizers on the executions the specification generates - the sanitizer is the observer there"),
    "C04": _c("DecodeVar (digit-sequence arithmetic, no machine integers) predicts acceptance and stored value; MC_Args explores argument texts over a 10-symbol alphabet with callbacks failing; executions cover boundary and adversarial digit strings up to the buffer capacity and beyond 2^64 for every type x width x access x position, and every byte value 1..255 at every position of an argument."),
    "C05": _c("BufHexLoop / StrLoop transcribe the decoders with their stores; MC_Args explores string and hex-buffer texts for the three access modes; executions cover data_size 1..64 with decoded lengths data_size-1, data_size, data_size+1 through the plain, escape and terminator paths; canaries catch any byte at or beyond data_size."),
    "C06": _c("The monitor compares the arguments seen inside every handler (bytes, length, NUL, parsed count, true capacity) with the bytes of the line / the oracle text; MC_Line at capacities 6..8; executions with argument lengths capacity-2 .. capacity+1 and 3 x capacity over all byte values, shared and separate event buffer."),
    "C07": _c("Literal round trip on the real code (harness op roundtrip: AT<c>? then AT<c>=<that text>): the monitor requires OK and no change of any variable; all 256 patterns of the 8-bit types, slices of the 16-bit ones, random and boundary 32-bit values, buffers and strings (full-length, escapes at both ends) of size 1..64 in mixed lists; READ text is also predicted by ReadVarText."),
    "C08": _c("Monitor: any storage change of a read-only variable is a violation; READ / event texts are predicted with write-only variables masked and compared against the unmasked alternative to recognise disclosure; availability rules are part of LineOutcome; MC_Args covers the three access modes for every decoder path."),
    "C09": _c("MC_Flags: all toggle histories (<= 2, thorough 3) of command / group disable and only_test between lines; executions: random toggle histories between lines with every lookup path (exact, abbreviation, implicit write, '=?', list); LineOutcome is evaluated with the current flags."),
    "C10": _c("MC_Codes: every return code (9 codes, -2, 9) at every handler invocation of all four kinds in both machines with buffer edits and failing variable callbacks; executions: scripted code sequences of length <= 13 with data edits and variable changes between calls; the monitor is the table-driven interpreter of the code table."),
    "C11": _c("MC_Sched: every readiness schedule with triggers and queries at any point (FlushMutex + unit matcher); executions: heavy back-pressure with disjoint command sets for lines and events; the matcher attributes every accepted byte to an owed unit of exactly one producer."),
    "C12": _c("MC_Sched explores all schedules against schedule-independent predictions; executions: the same scenario under the eager and three other schedules, each judged by the monitors; a contradiction that only a non-eager twin shows is a violation (stimuli sit at schedule-independent points); plus a literal comparison of output bytes and handler invocations between schedule twins (lines only)."),
    "C13": _c("MC_Ring: unbounded trigger / service / query histories for capacities 1..3 (finite state space), RingOk; every transition of that graph is replayed on the real code (edge cover); MC_Ext: descriptors that are not registered in the table; executions: long histories for capacities 1,2,3,8 with the non-locking observers queried after every call; the monitor keeps the abstract queue with an uncertainty window for unobservable pops."),
    "C14": _c("MC_Hold: hold from every handler kind, release by API or event handler at any point, spurious and repeated requests, queued second line; executions: fam_hold with input offsets at every read."),
    "C15": _c("MC_Live: under weak fairness of cat_service, once the stimulus budgets are spent the call eventually reports OK (no state constraint); safety: OK only when nothing is owed and a repeated call is a stutter - judged on every execution by the settle epilogue; events failing at once in every queue position."),
    "C16": _c("MC_Mutex: lock and unlock results are environment choices for all locking functions; executions: lock / unlock failing at the k-th invocation along histories that reach every return code of every handler kind in both machines; in-callback snapshots of the object show that nothing changes outside the bracket."),
    "C17": _c("CatThreads: all interleavings of <= 2 (thorough 3) producers with the service loop, ExactlyOnce; a racy variant must violate it (vacuity). Executions: real threads and a real pthread mutex; every critical section, in lock order with its hooked accesses, is validated by TLC against the ring; ThreadSanitizer as a second observer.",
              "interleavings of real threads are sampled, not enumerated; accesses without a hook are visible only to ThreadSanitizer"),
    "C18": _c("cat_is_busy / cat_is_hold are sampled after every cat_service call; the monitor knows partial lines, unanswered lines and open units from observable events; MC_Sched / MC_Hold allow the queries at every point."),
    "C19": _c("TestText / ListBlocks predict the '=?' response and the command list; MC_List: 32 descriptors x capacities 6,7,8,20; executions: random descriptors and capacities around the text length, by line and by event, with flag changes."),
    "C20": _c("MC_Hist: HavocScratch overwrites every stale per-line field at line boundaries; executions: line sequences in all orders on objects pre-filled with 0x00/0x55/0xA5/0xFF, fed in one piece or line by line; predictions are per line, so agreement is history independence; newline style from the line's CR."),
}

PROPS["C03"]["families"] = [GENERAL_S, fam("fam_geom", 6, 30), fam("fam_bounds", 40, 800), fam("fam_buf", 20, 400), fam("fam_num", 20, 400), fam("fam_lanes_exact", 12, 200)]
PROPS["C05"]["families"] = [GENERAL_S, fam("fam_buf", 60, 1500), fam("fam_bytes", 16, 64)]
PROPS["C06"]["families"] = [GENERAL_S, fam("fam_bounds", 50, 1000), fam("fam_textfit", 32, 800), fam("fam_codes", 18, 300)]
PROPS["C07"]["families"] = [fam("fam_round", 40, 1500), fam("fam_round_exh8", 12, 60), fam("fam_access", 20, 300)]
PROPS["C08"]["families"] = [GENERAL_S, fam("fam_access", 60, 1500), fam("fam_wo_twins", 48, 1200)]
PROPS["C09"]["families"] = [GENERAL_S, fam("fam_flags", 40, 1000), fam("fam_implicit", 24, 400), fam("fam_samename", 12, 144)]
PROPS["C10"]["families"] = [GENERAL_S, fam("fam_codes", 40, 1000), fam("fam_extcmd", 16, 300)]
PROPS["C11"]["families"] = [GENERAL_S, fam("fam_sched", 48, 1200), fam("fam_hold", 24, 400), fam("fam_extcmd", 12, 200), fam("fam_geom", 12, 60)]
PROPS["C12"]["families"] = [GENERAL_S, fam("fam_sched", 32, 800), fam("fam_conf", 48, 1200)]
PROPS["C13"]["families"] = [GENERAL_S, fam("fam_ring", 24, 400), fam("fam_quiesce", 10, 200), fam("fam_extcmd", 16, 300)]
PROPS["C14"]["families"] = [GENERAL_S, fam("fam_hold", 40, 800)]
PROPS["C15"]["families"] = [GENERAL_S, fam("fam_quiesce", 40, 800), fam("fam_sched", 16, 200), fam("fam_offsets", 20, 20)]
PROPS["C16"]["families"] = [fam("fam_mutex", 64, 1600), {"name": "fam_general_mutex", "gen": fam_general(lines=3, mutex=True), "quick": 30, "thorough": 600}]
PROPS["C18"]["families"] = [GENERAL_S, fam("fam_sched", 32, 800), fam("fam_hold", 16, 300), fam("fam_cut", 40, 800)]
PROPS["C20"]["families"] = [GENERAL_S, fam("fam_hist", 60, 1500), fam("fam_hist_twins", 160, 3000)]

# direction 2: behaviours generated by TLC from the specification, replayed on the real code (lib/simreplay.py)
import simreplay
import edgecover


def edge(cfg, module=None):
    """complete edge cover of a small state graph (lib/edgecover.py); the counts are ignored - the family is the whole cover"""
    return {"name": "edge_" + cfg, "gen": edgecover.fam_edge(module or cfg, "EDGE_" + cfg), "quick": 1, "thorough": 1}


PROPS["C13"]["families"] = PROPS["C13"]["families"] + [edge("MC_Ring")]
# executions that once exposed a fault of the machinery itself (a false alarm) are kept and re-run
for _p in PROPS:
    PROPS[_p]["families"] = PROPS[_p]["families"] + [{"name": "regress", "gen": fam_regress(_p + "-"), "quick": 1, "thorough": 1}]


def sim(cfg, module, quick=30, thorough=600, depth=120):
    return {"name": "sim_" + cfg, "gen": simreplay.fam_sim(module, "SIM_" + cfg, depth), "quick": quick, "thorough": thorough}


_SIM = {"C01": ["MC_Line"], "C02": ["MC_Line"], "C03": ["MC_Args"], "C04": ["MC_Args"], "C05": ["MC_Args"], "C06": ["MC_Line"], "C08": ["MC_Args"],
        "C09": ["MC_Flags"], "C10": ["MC_Codes"], "C11": ["MC_Sched"], "C12": ["MC_Sched"], "C13": ["MC_Ring", "MC_Sched"], "C14": ["MC_Hold"],
        "C15": ["MC_Sched"], "C16": ["MC_Mutex"], "C18": ["MC_Sched", "MC_Hold"], "C19": ["MC_List"]}
for _p, _l in _SIM.items():
    PROPS[_p]["families"] = PROPS[_p]["families"] + [sim(c, c) for c in _l]
