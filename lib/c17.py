"""C17: real threads (harness/catmt.c), critical sections validated by TLC (spec/CatThreadsTrace.tla), the thread model
CatThreads checked exhaustively, ThreadSanitizer as a second observer."""
import json
import os
import shutil
import subprocess
import time
from concurrent.futures import ThreadPoolExecutor

from catlib import *
import props

MT_SRC = os.path.join(VERIF, "harness", "catmt.c")


def build_mt(outdir, ks, tsan):
    os.makedirs(outdir, exist_ok=True)
    src = os.path.join(REPO, "src", "cat.c")
    hook = "CAT_VERIF_TOUCH" in open(src).read()
    out = {}

    def one(k):
        exe = os.path.join(outdir, "catmt%s_%d" % ("_tsan" if tsan else "", k))
        cmd = ["clang", "-O1", "-g", "-pthread", "-DCAT_VERIF", "-DCAT_UNSOLICITED_CMD_BUFFER_SIZE=((size_t)(%d))" % k,
               "-I", os.path.join(REPO, "src"), MT_SRC, src, "-o", exe]
        if tsan:
            cmd[1:1] = ["-fsanitize=thread"]
        if not hook:
            cmd[1:1] = ["-DNO_HOOK"]
        p = subprocess.run(cmd, stdout=subprocess.PIPE, stderr=subprocess.STDOUT, text=True, timeout=600)
        if p.returncode != 0:
            raise MachineryError("catmt build failed:\n" + p.stdout[-3000:])
        return k, exe
    with ThreadPoolExecutor(max_workers=8) as ex:
        for k, exe in ex.map(one, ks):
            out[k] = exe
    return out, hook


def check(tier, seed, driver):
    t0 = time.time()
    pid = "C17"
    work = scratch_dir("check-C17-")
    try:
        mc_runs = []
        for mc in props.PROPS[pid].get("mc", []):
            r = props.run_mc(mc, tier, work)
            mc_runs.append(r)
            if not r["ok"]:
                raise MachineryError("model checking stage %s failed:\n%s" % (mc["name"], r["tail"]))
        # vacuity: the racy variant of the model must violate ExactlyOnce
        rc, out = tlc("CatThreads", cfg="MC_ThreadsRacy", workers=4, timeout=300, metadir=os.path.join(work, "md-racy"))
        if "Invariant ExactlyOnce is violated" not in out:
            raise MachineryError("the racy variant of CatThreads no longer violates ExactlyOnce (vacuity check)")
        ks = (1, 2, 3, 8)
        exes, hook = build_mt(os.path.join(work, "bin"), ks, False)
        texes, _ = build_mt(os.path.join(work, "bin"), ks, True)
        runs = 3 if tier == "quick" else 40
        ops = 1500 if tier == "quick" else 4000
        jobs = []
        n = 0
        for rep in range(runs):
            for k in ks:
                for producers in (1, 2, 4, 8):
                    n += 1
                    jobs.append((k, producers, ops, seed * 7919 + n))

        def run(job):
            k, producers, nops, sd = job
            tr = os.path.join(work, "mt_%d_%d_%d.ndjson" % (k, producers, sd))
            p = subprocess.run(["timeout", "300", exes[k], tr, str(producers), str(nops), str(sd)], stdout=subprocess.PIPE, stderr=subprocess.STDOUT, text=True)
            if p.returncode != 0 or not os.path.exists(tr):
                return job, {"bad": [{"p": "C17", "why": ["harness run failed / crashed / hung", p.returncode, p.stdout[-300:]], "at": 0}], "sections": 0, "triggers": 0}, 0
            res = validate_trace(tr, "CatThreadsTrace")
            os.unlink(tr)
            return job, res, res["_tlc_states"][1]

        def run_tsan(job):
            k, producers, nops, sd = job
            tr = os.path.join(work, "tsan_%d_%d_%d.ndjson" % (k, producers, sd))
            env = dict(os.environ, TSAN_OPTIONS="exitcode=66:halt_on_error=1")
            p = subprocess.run(["timeout", "300", texes[k], tr, str(producers), str(max(200, nops // 4)), str(sd)], stdout=subprocess.PIPE, stderr=subprocess.STDOUT, text=True, env=env)
            if os.path.exists(tr):
                os.unlink(tr)
            race = "ThreadSanitizer" in p.stdout or p.returncode == 66
            return job, race, p.stdout[-1500:] if race else ""

        results, races = [], []
        with ThreadPoolExecutor(max_workers=max(2, NCPU // 2)) as ex:
            results = list(ex.map(run, jobs))
        tsan_jobs = [j for j in jobs if j[1] > 1][: (8 if tier == "quick" else 64)]
        with ThreadPoolExecutor(max_workers=4) as ex:
            races = list(ex.map(run_tsan, tsan_jobs))
        violations = []
        os.makedirs(driver.REPLAYS, exist_ok=True)
        for job, res, _ in results:
            if res["bad"]:
                path = os.path.join(driver.REPLAYS, "C17-%d-%d-%d.args" % (job[0], job[1], job[3]))
                open(path, "w").write("catmt qcap=%d producers=%d ops=%d seed=%d\n" % job)
                violations.append((path, res["bad"][0]))
        for job, race, tail in races:
            if race:
                path = os.path.join(driver.REPLAYS, "C17-tsan-%d-%d-%d.args" % (job[0], job[1], job[3]))
                open(path, "w").write("catmt(tsan) qcap=%d producers=%d ops=%d seed=%d\n%s\n" % (job + (tail,)))
                violations.append((path, {"why": ["ThreadSanitizer reported a data race", tail[:300]], "at": 0}))
        for path, b in violations[:5]:
            print("VIOLATION property=C17 replay=%s" % path)
            print("  reason: %s" % driver.why_text(b["why"])[:300])
        sections = sum(r["sections"] for _, r, _ in results)
        triggers = sum(r["triggers"] for _, r, _ in results)
        ev = {
            "property_id": pid, "tier": tier, "seed": seed, "level": "model_checking",
            "coverage": {
                "states": sum(r["distinct"] for r in mc_runs) + sum(s for _, _, s in results),
                "transitions": sum(r["generated"] for r in mc_runs) + sum(s for _, _, s in results),
                "traces_validated_against_impl": len(results),
                "samples": [{"qcap": j[0], "producers": j[1], "ops_per_producer": j[2], "seed": j[3], "critical_sections": r["sections"], "triggers": r["triggers"]} for j, r, _ in results[:4]],
                "evaluations": len(results) + len(races),
                "distinct_nontrivial": len({(j[0], j[1]) for j, r, _ in results if r["triggers"] > 0}),
                "rule": "real-thread runs of harness/catmt.c for queue capacities 1,2,3,8 x 1,2,4,8 producer threads; a run is non-trivial when triggers raced with cat_service; "
                        "distinct = distinct (capacity, producers) pairs; every critical section (lock order) is validated by TLC against the ring of CatThreads",
                "exhaustive": False,
                "model_checking_runs": [{k: r[k] for k in ("name", "distinct", "generated", "wall_s", "exhaustive", "depth")} for r in mc_runs],
                "racy_model_violates_exactly_once": True,
                "critical_sections_validated": sections, "triggers_validated": triggers,
                "tsan_runs": len(races), "tsan_reports": sum(1 for _, r, _ in races if r),
                "touch_hook_present": hook,
                "checker_cmd": "tlc -workers 1 -config spec/CatThreadsTrace.cfg spec/CatThreadsTrace.tla (CAT_TRACE=<catmt ndjson>)",
            },
            "assumptions": ["the mutex interface is backed by a real pthread mutex; the two documented non-locking observers are not called concurrently",
                            "accesses to shared fields that carry no CAT_VERIF_TOUCH hook and do not corrupt a count are visible only to ThreadSanitizer",
                            "thread interleavings are those the scheduler produces over the runs (randomised yields), not all interleavings; the model CatThreads covers all interleavings for <= 3 producers"],
            "wall_s": round(time.time() - t0, 2), "violations": len(violations),
        }
        os.makedirs(driver.EVID, exist_ok=True)
        json.dump(ev, open(os.path.join(driver.EVID, "C17.json"), "w"), indent=1)
        print("C17 tier=%s seed=%d: %d thread runs, %d critical sections validated, %d tsan runs, violations=%d, wall=%.1fs" % (
            tier, seed, len(results), sections, len(races), len(violations), time.time() - t0))
        return 1 if violations else 0
    finally:
        shutil.rmtree(work, ignore_errors=True)
