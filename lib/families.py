"""Targeted scenario families (DESIGN.md section 6, the "B" paragraphs)."""
import itertools
import random

from catlib import *
import gen


def all_handlers(name, **kw):
    d = dict(hw=True, hr=True, hx=True, ht=True)
    d.update(kw)
    return Cmd(name, **d)


def sig(s, *extra):
    s.meta["sig"] = (s.meta.get("family"),) + tuple(extra)
    return s


def line_block(sc, lines, settle=2000):
    for l in lines:
        sc.feed(l)
        sc.settle(settle)


# --------------------------------------------------------------------------- C01 / C02: prefix x suffix x order sweep

def fam_prefix(rng, sid0, n):
    out = []
    suffixes = ["", "?", "=", "=?", "=x", "=ATZ", "=AT+TA", "?x", "=?x", "=1,2", "=\"AT\""]
    for i in range(n):
        plen = rng.choice([1, 2, 3])
        pre = "+" + "".join(rng.choice("TQXY") for _ in range(plen - 1)) if plen > 1 else rng.choice(["+", "T"])
        a, b = pre + "A", pre + rng.choice(["B", "BB", "AB"])
        third = rng.choice(["Z", "ZZ", "+Z", pre[:1] + "Z" if pre[:1] != "Z" else "Q"])
        fillers = [rng.choice(["Q1", "W", "+K", "M9"]) for _ in range(rng.choice([0, 1, 2, 5]))]
        order = rng.choice(["pair-first", "pair-last", "pair-mid", "split"])
        if order == "pair-first":
            names = [a, b, third] + fillers
        elif order == "pair-last":
            names = [third] + fillers + [a, b]
        elif order == "pair-mid":
            names = [third, a, b] + fillers
        else:
            names = [a, third] + fillers + [b]
        cmds = [all_handlers(nm, vars=[Var(UINT, 1, RW, "x", mem=b"\x05")] if rng.random() < 0.5 else []) for nm in names]
        half = rng.choice([8, 16, 32])
        sc = Scenario(sid0 + i, cmds, qcap=rng.choice([1, 2]), bufsize=2 * half, grain=rng.choice(["step", "compact"]),
                      meta={"family": "fam_prefix"})
        lines = []
        typed = set()
        for nm in (a, b, third):
            for k in range(1, len(nm) + 1):
                typed.add(nm[:k])
        for t in sorted(typed):
            for sfx in rng.sample(suffixes, 6):
                t2 = t.lower() if rng.random() < 0.3 else t
                lines.append(("AT" + t2 + sfx + rng.choice(["\n", "\r\n"])).encode())
        rng.shuffle(lines)
        line_block(sc, lines[:rng.choice([30, 60])])
        out.append(sig(sc, order, plen, len(names)))
    return out


# --------------------------------------------------------------------------- C02: bit lanes and case folding

def fam_lanes(rng, sid0, n):
    out = []
    sizes = [4, 5, 8, 9, 12, 13, 16, 17, 33, 64]
    for i in range(n):
        N = sizes[i % len(sizes)]
        # names: unique 3-char codes; some share 2-char prefixes
        alpha = "ABCDEFGHJKLMNPQRSTUVWXYZ0123456789"
        names = []
        while len(names) < N:
            nm = "+" + rng.choice(alpha) + rng.choice(alpha) + (rng.choice(alpha) if rng.random() < 0.7 else "")
            if nm not in names:
                names.append(nm)
        cmds = [Cmd(nm, hx=True, hr=rng.random() < 0.3, hw=rng.random() < 0.3) for nm in names]
        half = max(8, (N + 3) // 4 + rng.choice([0, 1, 3]))
        sc = Scenario(sid0 + i, cmds, qcap=1, bufsize=2 * half, grain="compact", meta={"family": "fam_lanes"})
        lines = []
        for idx in rng.sample(range(N), min(N, 14)):
            nm = names[idx]
            lines.append(("AT" + nm + "\n").encode())
            lines.append(("at" + nm.lower() + "\r\n").encode())
            lines.append(("AT" + nm[:-1] + "\n").encode())       # abbreviation, unique or ambiguous
            lines.append(("AT" + nm[:2] + rng.choice(["", "?", "=1"]) + "\n").encode())
        rng.shuffle(lines)
        line_block(sc, lines)
        out.append(sig(sc, N, half))
    return out


def fam_casefold(rng, sid0, n):
    out = []
    for i in range(n):
        # every byte value as a typed name character against names that contain its upper/lower partner
        specials = ["`", "{", "@", "[", "z", "Z", "a", "A", "_", "%", "&", "#", "$", "9", "0", "+"]
        chars = rng.sample(specials, 6)
        names = []
        for ch in chars:
            names.append("+" + ch + "Q")
        names += ["+Zz", "+aZ", "+z"]
        cmds = [Cmd(nm, hx=True) for nm in names]
        sc = Scenario(sid0 + i, cmds, qcap=1, bufsize=32, grain="compact", meta={"family": "fam_casefold"})
        lines = []
        for nm in names:
            lines.append(("AT" + nm + "\n").encode("latin-1"))
            lines.append(("AT" + nm.swapcase() + "\n").encode("latin-1"))
        for _ in range(40):
            b = rng.randrange(1, 256)
            if b in (10, 13):
                continue
            lines.append(b"AT+" + bytes([b]) + rng.choice([b"Q", b"q", b""]) + b"\n")
        rng.shuffle(lines)
        line_block(sc, lines)
        out.append(sig(sc, tuple(chars)))
    return out


# --------------------------------------------------------------------------- C04: numeric arguments

INT_B = {1: (127, 128), 2: (32767, 32768), 4: (2147483647, 2147483648)}
UINT_B = {1: 255, 2: 65535, 4: 4294967295}


def num_texts(rng, vtype, size):
    """Boundary and adversarial texts for one numeric variable."""
    t = []
    big = [2 ** 31, 2 ** 32, 2 ** 63, 2 ** 64, 2 ** 64 + 5, 2 ** 64 + 1, 10 ** 25 + 7, 2 ** 63 - 1, 2 ** 64 - 1]
    if vtype == INT:
        hi, lo = INT_B.get(size, (127, 128))
        vals = [0, 1, -1, hi, hi + 1, hi - 1, -lo, -lo - 1, -lo + 1] + big + [-x for x in big]
        for v in vals:
            z = "0" * rng.choice([0, 0, 1, 3])
            t.append(("-" if v < 0 else rng.choice(["", "", "+"])) + z + str(abs(v)))
        t += ["-0", "+0", "-", "+", "", "--1", "+-1", "1-", "1+", " 1", "1 ", "0x1", "1x", "１"[:0] + "1a", "00000000000000000000000000000001",
              "-00000000000000000000000000000000128", "9" * rng.choice([19, 20, 21, 30])]
    elif vtype == UINT:
        hi = UINT_B.get(size, 255)
        vals = [0, 1, hi, hi + 1, hi - 1] + big
        for v in vals:
            t.append("0" * rng.choice([0, 0, 1, 3]) + str(v))
        t += ["-1", "+1", "-0", "", "1a", "0x1", " 1", "00000000000000000000000000000000255", "9" * rng.choice([19, 20, 21, 30])]
    else:
        hi = UINT_B.get(size, 255)
        vals = [0, 1, hi, hi + 1, hi - 1, 2 ** 32, 2 ** 64 - 1, 2 ** 64, 2 ** 64 + 5, 2 ** 68 + 5]
        for v in vals:
            pre = rng.choice(["0x", "0X"])
            z = "0" * rng.choice([0, 0, 1, 3, 20])
            h = "%X" % v
            if rng.random() < 0.4:
                h = h.lower()
            t.append(pre + z + h)
        t += ["0x", "0X", "x1", "1", "0x1g", "0xg", "00x1", "0x-1", "", "0x 1", "0x00000000000000000000005"]
    return t


def fam_num(rng, sid0, n):
    out = []
    for i in range(n):
        vtype = rng.choice([INT, UINT, HEX])
        size = rng.choice([1, 2, 4, 1, 2, 4, 3, 8])
        acc = rng.choice([RW, RW, WO, RO])
        nvars = rng.choice([1, 1, 2, 3])
        pos = rng.randrange(nvars)
        vs = []
        for k in range(nvars):
            if k == pos:
                vs.append(Var(vtype, size, acc, "v", vw=rng.random() < 0.3, mem=gen.rand_mem(rng, vtype, size)))
            else:
                vs.append(Var(UINT, 1, RW, None, mem=b"\x07"))
        cmd = Cmd("+N", hw=rng.random() < 0.6, need_all=rng.random() < 0.3, vars=vs)
        half = rng.choice([48, 64, 80])
        sc = Scenario(sid0 + i, [cmd], qcap=1, bufsize=2 * half, grain=rng.choice(["compact", "compact", "step"]), meta={"family": "fam_num"})
        texts = num_texts(rng, vtype, size)
        # long digit strings up to the capacity
        for L in (half - 2 - 2 * pos, half - 1 - 2 * pos, half - 2 * pos, half + 1):
            if L > 0:
                texts.append("1" * L if vtype != HEX else "0x" + "1" * max(1, L - 2))
        rng.shuffle(texts)
        lines = []
        for tx in texts[:rng.choice([25, 40])]:
            args = ["7"] * nvars
            args[pos] = tx
            lines.append(("AT+N=" + ",".join(args) + rng.choice(["\n", "\r\n"])).encode())
        line_block(sc, lines)
        out.append(sig(sc, vtype, size, acc, nvars, pos))
    return out


# --------------------------------------------------------------------------- C19: descriptors, TEST text, command list

def fam_desc(rng, sid0, n):
    out = []
    for i in range(n):
        ncmd = rng.randint(1, 5)
        names = gen.related_names(rng, ncmd, "AB+T1")
        groups = []
        ng = rng.choice([1, 2, 3])
        cmds = []
        for nm in names:
            implicit = rng.random() < 0.15
            nv = rng.choice([0, 1, 2, 3, 6]) if rng.random() < 0.8 else 0
            vs = []
            for _ in range(nv):
                v = gen.rand_var(rng)
                v.vr = v.vw = False
                vs.append(v)
            cmds.append(Cmd(nm, desc=rng.choice([None, "d", "a description", "", "x\ny"]),
                            hw=rng.random() < 0.5, hr=(not implicit) and rng.random() < 0.4, hx=(not implicit) and rng.random() < 0.4,
                            ht=(not implicit) and rng.random() < 0.3, only_test=rng.random() < 0.15, disable=rng.random() < 0.2,
                            implicit=implicit, vars=vs))
        lister = Cmd("+L", hx=True, ht=True)
        for g in range(ng):
            groups.append((rng.random() < 0.3, []))
        groups[0] = (False, [lister])
        for c in cmds:
            groups[rng.randrange(len(groups))][1].append(c)
        groups = [g for g in groups if g[1]]
        # capacity around the longest advertised line / test text
        longest = max(len(c.name) for c in cmds) + 6
        half = rng.choice([longest - 1, longest, longest + 1, longest + 2, 24, 40, 96])
        half = max(half, 6, (ncmd + 4) // 4)
        sc = Scenario(sid0 + i, groups, qcap=2, bufsize=2 * half + rng.choice([0, 1]), grain=rng.choice(["step", "compact"]),
                      meta={"family": "fam_desc"})
        li = [k for k, c in enumerate(sc.cmds()) if c.name == "+L"][0]
        sc.hs(li, "x", ret=R_LIST)
        sc.hs(li, "t", ret=R_LIST)
        lines = [b"AT+L\n", b"AT+L=?\r\n"]
        for c in cmds:
            for sfx in ("=?", "", "?", "="):
                lines.append(("AT" + c.name + sfx + "\n").encode())
        rng.shuffle(lines)
        line_block(sc, lines[:14])
        # TEST by event as well
        for k, c in enumerate(sc.cmds()):
            if rng.random() < 0.4:
                sc.trig(k, "t")
                sc.settle(2000)
        # toggle a flag and list again
        sc.flag_group(rng.randrange(len(sc.groups)), rng.random() < 0.5)
        sc.flag_cmd(rng.randrange(len(sc.cmds())), "disable", rng.random() < 0.5)
        sc.feed(b"AT+L\n").settle(3000)
        out.append(sig(sc, ncmd, half, len(groups)))
    return out
