"""Targeted scenario families (DESIGN.md section 6, the "B" paragraphs)."""
import itertools
import random

from catlib import *
import gen


def all_handlers(name, **kw):
    d = dict(hw=True, hr=True, hx=True, ht=True)
    d.update(kw)
    return Cmd(name, **d)


def sig(s, *extra):
    s.meta["sig"] = (s.meta.get("family"),) + tuple(extra)
    return s


def line_block(sc, lines, settle=2000):
    for l in lines:
        sc.feed(l)
        sc.settle(settle)


# --------------------------------------------------------------------------- C01 / C02: prefix x suffix x order sweep

def fam_prefix(rng, sid0, n):
    out = []
    suffixes = ["", "?", "=", "=?", "=x", "=ATZ", "=AT+TA", "?x", "=?x", "=1,2", "=\"AT\""]
    for i in range(n):
        plen = rng.choice([1, 2, 3])
        pre = "+" + "".join(rng.choice("TQXY") for _ in range(plen - 1)) if plen > 1 else rng.choice(["+", "T"])
        a, b = pre + "A", pre + rng.choice(["B", "BB", "AB"])
        third = rng.choice(["Z", "ZZ", "+Z", pre[:1] + "Z" if pre[:1] != "Z" else "Q"])
        fillers = [rng.choice(["Q1", "W", "+K", "M9"]) for _ in range(rng.choice([0, 1, 2, 5]))]
        order = rng.choice(["pair-first", "pair-last", "pair-mid", "split"])
        if order == "pair-first":
            names = [a, b, third] + fillers
        elif order == "pair-last":
            names = [third] + fillers + [a, b]
        elif order == "pair-mid":
            names = [third, a, b] + fillers
        else:
            names = [a, third] + fillers + [b]
        cmds = [all_handlers(nm, vars=[Var(UINT, 1, RW, "x", mem=b"\x05")] if rng.random() < 0.5 else []) for nm in names]
        half = rng.choice([8, 16, 32])
        sc = Scenario(sid0 + i, cmds, qcap=rng.choice([1, 2]), bufsize=2 * half, grain=rng.choice(["step", "compact"]),
                      meta={"family": "fam_prefix"})
        lines = []
        typed = set()
        for nm in (a, b, third):
            for k in range(1, len(nm) + 1):
                typed.add(nm[:k])
        typed.add("")                                   # empty name: AT=..., AT?...
        for t in sorted(typed):
            for sfx in rng.sample(suffixes, 6):
                t2 = t.lower() if rng.random() < 0.3 else t
                lines.append(("AT" + t2 + sfx + rng.choice(["\n", "\r\n"])).encode())
        rng.shuffle(lines)
        line_block(sc, lines[:rng.choice([30, 60])])
        out.append(sig(sc, order, plen, len(names)))
    return out


# --------------------------------------------------------------------------- C02: bit lanes and case folding

def fam_lanes(rng, sid0, n):
    out = []
    sizes = [4, 5, 8, 9, 12, 13, 16, 17, 33, 64]
    for i in range(n):
        N = sizes[i % len(sizes)]
        # names: unique 3-char codes; some share 2-char prefixes
        alpha = "ABCDEFGHJKLMNPQRSTUVWXYZ0123456789"
        names = []
        while len(names) < N:
            nm = "+" + rng.choice(alpha) + rng.choice(alpha) + (rng.choice(alpha) if rng.random() < 0.7 else "")
            if nm not in names:
                names.append(nm)
        cmds = [Cmd(nm, hx=True, hr=rng.random() < 0.3, hw=rng.random() < 0.3) for nm in names]
        half = max(8, (N + 3) // 4 + rng.choice([0, 1, 3]))
        sc = Scenario(sid0 + i, cmds, qcap=1, bufsize=2 * half, grain="compact", meta={"family": "fam_lanes"})
        lines = []
        for idx in rng.sample(range(N), min(N, 14)):
            nm = names[idx]
            lines.append(("AT" + nm + "\n").encode())
            lines.append(("at" + nm.lower() + "\r\n").encode())
            lines.append(("AT" + nm[:-1] + "\n").encode())       # abbreviation, unique or ambiguous
            lines.append(("AT" + nm[:2] + rng.choice(["", "?", "=1"]) + "\n").encode())
        rng.shuffle(lines)
        line_block(sc, lines)
        out.append(sig(sc, N, half))
    return out


def fam_lanes_exact(rng, sid0, n):
    """Tables whose match bits fill the command buffer exactly (commands = 4 x capacity): C03."""
    out = []
    for i in range(n):
        acap = rng.choice([6, 7, 8, 9, 16])
        N = 4 * acap - rng.choice([0, 0, 0, 1, 3])
        names = []
        alpha = "ABCDEFGHJKLMNPQRSTUVWXYZ0123456789"
        while len(names) < N:
            nm = "+" + rng.choice(alpha) + rng.choice(alpha) + rng.choice(alpha)
            if nm not in names:
                names.append(nm)
        cmds = [Cmd(nm, hx=True) for nm in names]
        ev = Cmd("+V", vars=[Var(UINT, 1, RW, None, mem=b"\x07")])
        cmds[-1] = ev
        if rng.random() < 0.5:
            sc = Scenario(sid0 + i, cmds, qcap=1, bufsize=2 * acap, grain="compact", meta={"family": "fam_lanes_exact"})
        else:
            sc = Scenario(sid0 + i, cmds, qcap=1, bufsize=acap, usize=rng.choice([8, 12]), grain="compact", meta={"family": "fam_lanes_exact"})
        for idx in rng.sample(range(N - 1), 6):
            sc.trig(N - 1, "r")
            sc.feed(("AT" + names[idx] + "\n").encode())
            sc.settle(20000)
        out.append(sig(sc, N, acap))
    return out


def fam_lanes_wide(rng, sid0, n):
    """Hundreds of commands sharing a prefix: candidate counts around the widths a counter could have (255, 256, 257)."""
    out = []
    for i in range(n):
        ncand = [255, 256, 257, 258, 129, 130][i % 6]
        names = ["+P%03d" % k for k in range(ncand)]
        others = ["Z", "+Q1"]
        order = ["cand-first", "cand-mid", "cand-last"][(i // 6) % 3]
        table = names + others if order == "cand-first" else others + names if order == "cand-last" else others[:1] + names + others[1:]
        cmds = [Cmd(nm, hx=True, hr=rng.random() < 0.1) for nm in table]
        half = (len(table) + 3) // 4 + rng.choice([0, 1, 8])
        sc = Scenario(sid0 + i, cmds, qcap=1, bufsize=2 * half, grain="compact", meta={"family": "fam_lanes_wide"})
        lines = [b"AT+P\n", b"AT+P0\n", b"AT+P00\n", b"AT+P000\n", ("AT+P%03d\n" % (ncand - 1)).encode(), b"AT+P25\n", b"AT+P=1\n", b"AT+\n", b"ATZ\n", b"AT+Q\n"]
        rng.shuffle(lines)
        line_block(sc, [b"AT+P\n", b"AT+P=1\r\n"] + lines[:4], 60000)
        out.append(sig(sc, ncand, order))
    return out


def fam_casefold(rng, sid0, n):
    out = []
    for i in range(n):
        # every byte value as a typed name character against names that contain its upper/lower partner
        specials = ["`", "{", "@", "[", "z", "Z", "a", "A", "_", "%", "&", "#", "$", "9", "0", "+"]
        chars = rng.sample(specials, 6)
        names = []
        for ch in chars:
            names.append("+" + ch + "Q")
        names += ["+Zz", "+aZ", "+z"]
        cmds = [Cmd(nm, hx=True) for nm in names]
        sc = Scenario(sid0 + i, cmds, qcap=1, bufsize=32, grain="compact", meta={"family": "fam_casefold"})
        lines = []
        for nm in names:
            lines.append(("AT" + nm + "\n").encode("latin-1"))
            lines.append(("AT" + nm.swapcase() + "\n").encode("latin-1"))
        for _ in range(40):
            b = rng.randrange(1, 256)
            if b in (10, 13):
                continue
            lines.append(b"AT+" + bytes([b]) + rng.choice([b"Q", b"q", b""]) + b"\n")
        rng.shuffle(lines)
        line_block(sc, lines)
        out.append(sig(sc, tuple(chars)))
    return out


# --------------------------------------------------------------------------- C04: numeric arguments

INT_B = {1: (127, 128), 2: (32767, 32768), 4: (2147483647, 2147483648)}
UINT_B = {1: 255, 2: 65535, 4: 4294967295}


def num_texts(rng, vtype, size):
    """Boundary and adversarial texts for one numeric variable."""
    t = []
    big = [2 ** 31, 2 ** 32, 2 ** 63, 2 ** 64, 2 ** 64 + 5, 2 ** 64 + 1, 10 ** 25 + 7, 2 ** 63 - 1, 2 ** 64 - 1]
    if vtype == INT:
        hi, lo = INT_B.get(size, (127, 128))
        vals = [0, 1, -1, hi, hi + 1, hi - 1, -lo, -lo - 1, -lo + 1] + big + [-x for x in big]
        for v in vals:
            z = "0" * rng.choice([0, 0, 1, 3])
            t.append(("-" if v < 0 else rng.choice(["", "", "+"])) + z + str(abs(v)))
        t += ["-0", "+0", "-", "+", "", "--1", "+-1", "1-", "1+", " 1", "1 ", "0x1", "1x", "１"[:0] + "1a", "00000000000000000000000000000001",
              "-00000000000000000000000000000000128", "9" * rng.choice([19, 20, 21, 30])]
    elif vtype == UINT:
        hi = UINT_B.get(size, 255)
        vals = [0, 1, hi, hi + 1, hi - 1] + big
        for v in vals:
            t.append("0" * rng.choice([0, 0, 1, 3]) + str(v))
        t += ["-1", "+1", "-0", "", "1a", "0x1", " 1", "00000000000000000000000000000000255", "9" * rng.choice([19, 20, 21, 30])]
    else:
        hi = UINT_B.get(size, 255)
        vals = [0, 1, hi, hi + 1, hi - 1, 2 ** 32, 2 ** 64 - 1, 2 ** 64, 2 ** 64 + 5, 2 ** 68 + 5]
        for v in vals:
            pre = rng.choice(["0x", "0X"])
            z = "0" * rng.choice([0, 0, 1, 3, 20])
            h = "%X" % v
            if rng.random() < 0.4:
                h = h.lower()
            t.append(pre + z + h)
        t += ["0x", "0X", "x1", "1", "0x1g", "0xg", "00x1", "0x-1", "", "0x 1", "0x00000000000000000000005"]
    return t


def fam_num(rng, sid0, n):
    out = []
    for i in range(n):
        vtype = rng.choice([INT, UINT, HEX])
        size = rng.choice([1, 2, 4, 1, 2, 4, 3, 8])
        acc = rng.choice([RW, RW, WO, RO])
        nvars = rng.choice([1, 1, 2, 3])
        pos = rng.randrange(nvars)
        vs = []
        for k in range(nvars):
            if k == pos:
                vs.append(Var(vtype, size, acc, "v", vw=rng.random() < 0.3, mem=gen.rand_mem(rng, vtype, size)))
            else:
                vs.append(Var(UINT, 1, RW, None, mem=b"\x07"))
        cmd = Cmd("+N", hw=rng.random() < 0.6, need_all=rng.random() < 0.3, vars=vs)
        evc = Cmd("+E", ht=rng.random() < 0.5, hr=rng.random() < 0.5, vars=[Var(UINT, 1, RW, "e", mem=b"\x01"), Var(INT, 2, RW, None, mem=b"\x02\x00")])
        half = rng.choice([48, 64, 80])
        sc = Scenario(sid0 + i, [cmd, evc], qcap=2, bufsize=2 * half, grain=rng.choice(["compact", "compact", "step"]), meta={"family": "fam_num"})
        midline = nvars >= 2 and rng.random() < 0.5
        if midline:
            # an event is triggered from a variable's write callback, i.e. it is processed between two arguments of the same line
            for v in vs:
                v.vw = True
        texts = num_texts(rng, vtype, size)
        # long digit strings up to the capacity
        for L in (half - 2 - 2 * pos, half - 1 - 2 * pos, half - 2 * pos, half + 1):
            if L > 0:
                texts.append("1" * L if vtype != HEX else "0x" + "1" * max(1, L - 2))
        rng.shuffle(texts)
        lines = []
        for tx in texts[:rng.choice([25, 40])]:
            args = ["7"] * nvars
            args[pos] = tx
            lines.append(("AT+N=" + ",".join(args) + rng.choice(["\n", "\r\n"])).encode())
        if midline:
            for l in lines:
                sc.vs(0, 0, "w", ret=0, act="trig:1:%s" % rng.choice("rt"))
                for k in range(1, nvars):
                    sc.vs(0, k, "w", ret=0)
                sc.feed(l)
                sc.settle(4000)
        else:
            line_block(sc, lines)
        out.append(sig(sc, vtype, size, acc, nvars, pos, midline))
    return out


# --------------------------------------------------------------------------- C19: descriptors, TEST text, command list

def fam_desc(rng, sid0, n):
    out = []
    for i in range(n):
        ncmd = rng.randint(1, 5)
        names = gen.related_names(rng, ncmd, "AB+T1")
        groups = []
        ng = rng.choice([1, 2, 3])
        cmds = []
        for nm in names:
            implicit = rng.random() < 0.15
            nv = rng.choice([0, 1, 2, 3, 6]) if rng.random() < 0.8 else 0
            vs = []
            for _ in range(nv):
                v = gen.rand_var(rng)
                v.vr = v.vw = False
                vs.append(v)
            cmds.append(Cmd(nm, desc=rng.choice([None, "d", "a description", "", "x\ny"]),
                            hw=rng.random() < 0.5, hr=(not implicit) and rng.random() < 0.4, hx=(not implicit) and rng.random() < 0.4,
                            ht=(not implicit) and rng.random() < 0.3, only_test=rng.random() < 0.15, disable=rng.random() < 0.2,
                            implicit=implicit, vars=vs))
        lister = Cmd("+L", hx=True, ht=True)
        for g in range(ng):
            groups.append((rng.random() < 0.3, []))
        groups[0] = (False, [lister])
        for c in cmds:
            groups[rng.randrange(len(groups))][1].append(c)
        groups = [g for g in groups if g[1]]
        # capacity around the longest advertised line / around the TEST text of one of the commands
        longest = max(len(c.name) for c in cmds) + 6

        def test_len(c):
            n = len(c.name) + 1
            for k, v in enumerate(c.vars):
                ty = {INT: "INT", UINT: "UINT", HEX: "HEX"}.get(v.type)
                ty = (ty + str(8 * v.size)) if ty else ("HEXBUF" if v.type == BUFHEX else "STRING")
                n += (1 if k else 0) + 1 + (len(v.name) + 1 if v.name is not None else 0) + len(ty) + 4 + 1
            return n + (1 + len(c.desc) if c.desc is not None else 0)
        tl = test_len(rng.choice(cmds))
        half = rng.choice([longest - 1, longest, longest + 1, longest + 2, tl - 1, tl, tl + 1, tl + 2, tl, tl + 1, 24, 40, 96])
        half = max(half, 6, (ncmd + 4) // 4)
        sc = Scenario(sid0 + i, groups, qcap=2, bufsize=2 * half + rng.choice([0, 1]), grain=rng.choice(["step", "compact"]),
                      meta={"family": "fam_desc"})
        li = [k for k, c in enumerate(sc.cmds()) if c.name == "+L"][0]
        sc.hs(li, "x", ret=R_LIST)
        sc.hs(li, "t", ret=R_LIST)
        lines = [b"AT+L\n", b"AT+L=?\r\n"]
        for c in cmds:
            for sfx in ("=?", "", "?", "="):
                lines.append(("AT" + c.name + sfx + "\n").encode())
        rng.shuffle(lines)
        line_block(sc, lines[:14])
        # TEST by event as well
        for k, c in enumerate(sc.cmds()):
            if rng.random() < 0.4:
                sc.trig(k, "t")
                sc.settle(2000)
        # toggle a flag and list again
        sc.flag_group(rng.randrange(len(sc.groups)), rng.random() < 0.5)
        sc.flag_cmd(rng.randrange(len(sc.cmds())), "disable", rng.random() < 0.5)
        sc.feed(b"AT+L\n").settle(3000)
        out.append(sig(sc, ncmd, half, len(groups)))
    return out


# --------------------------------------------------------------------------- C05: hex-buffer and string arguments

def str_arg(rng, nplain, nesc, alphabet=None):
    """A quoted string argument with nplain plain and nesc escaped characters; returns (text, decoded)."""
    items = [("p", None)] * nplain + [("e", None)] * nesc
    rng.shuffle(items)
    txt, dec = b'"', b""
    for kind, _ in items:
        if kind == "p":
            ch = rng.choice(alphabet) if alphabet else rng.choice([x for x in range(1, 256) if x not in (10, 13, 34, 92)])
            txt += bytes([ch]); dec += bytes([ch])
        else:
            e, d = rng.choice([(b'\\\\', b'\\'), (b'\\"', b'"'), (b'\\n', b'\n')])
            txt += e; dec += d
    return txt + b'"', dec


def buf_at_capacity(rng, sid):
    """Shared buffer: the byte behind the command half is the first byte of the event half. An event first leaves hex digits there;
    then hex / string arguments of length capacity-1, capacity, capacity+1 arrive (C05 / C06: an argument that does not fit is refused, never decoded)."""
    acap = rng.choice([8, 10, 16])
    vtype = rng.choice([BUFHEX, BUFHEX, STRING])
    size = rng.choice([acap // 2, acap // 2 + 1, acap, 2 * acap])
    var = Var(vtype, size, RW, "b", vw=rng.random() < 0.5, mem=bytes(size))
    cmd = Cmd("+B", hw=rng.random() < 0.5, vars=[var])
    ev = Cmd("+U", hr=True)
    sc = Scenario(sid, [cmd, ev], qcap=1, bufsize=2 * acap, grain="step", meta={"family": "fam_buf"})
    for _ in range(4):
        sc.hs(1, "r", "e", ret=R_DATA_OK, data=rng.choice([b"1F", b"AB", b"0", b",", b"", b"\"", b"7f3"]))
    for L in (acap - 1, acap, acap, acap + 1):
        sc.trig(1, "r").settle(3000)
        if vtype == BUFHEX:
            arg = "".join(rng.choice("0123456789abcdef") for _ in range(L)).encode()
        else:
            arg = b'"' + b"a" * (L - 1) if rng.random() < 0.5 else b'"' + b"a" * (L - 2) + b'"'
        sc.feed(b"AT+B=" + arg + b"\n").settle(3000)
    return sig(sc, "cap", acap, vtype, size)


def fam_buf(rng, sid0, n):
    out = []
    for i in range(n):
        if i % 4 == 3:
            out.append(buf_at_capacity(rng, sid0 + i))
            continue
        vtype = rng.choice([BUFHEX, STRING])
        size = rng.choice(list(range(1, 13)) + [16, 31, 32, 33, 63, 64])
        acc = rng.choice([RW, RW, WO, RO])
        nvars = rng.choice([1, 1, 2, 3])
        pos = rng.randrange(nvars)
        vs = []
        for k in range(nvars):
            if k == pos:
                vs.append(Var(vtype, size, acc, "b", vw=rng.random() < 0.5, mem=gen.rand_mem(rng, vtype, size)))
            else:
                vs.append(Var(UINT, 1, RW, None, mem=b"\x07"))
        cmd = Cmd("+B", hw=rng.random() < 0.5, vars=vs)
        half = 2 * 64 + 3 * 66 + 16
        sc = Scenario(sid0 + i, [cmd], qcap=1, bufsize=2 * half, grain=rng.choice(["compact", "compact", "step"]), meta={"family": "fam_buf"})
        texts = []
        for L in sorted({max(0, size - 2), size - 1, size, size + 1, 0, 1}):
            if L < 0:
                continue
            if vtype == BUFHEX:
                h = "".join(rng.choice("0123456789abcdefABCDEF") for _ in range(2 * L))
                texts += [h.encode(), (h + "0").encode(), (h[:-1] if h else "g").encode(), (h + "zz").encode(), (h + ",").encode()]
            else:
                for nesc in sorted({0, 1, L} & set(range(0, L + 1))):
                    t, _ = str_arg(rng, L - nesc, nesc)
                    texts.append(t)
                    # escape in the last position
                    t2, _ = str_arg(rng, max(0, L - 1), 0)
                    if L >= 1:
                        texts.append(t2[:-1] + rng.choice([b'\\\\', b'\\"', b'\\n']) + b'"')
                texts += [b'"abc', b'abc"', b'"a\\x"', b'"a"b', b'""x', b'"', b'\\"', b'"\\', b'']
        rng.shuffle(texts)
        lines = []
        for tx in texts[:rng.choice([20, 30])]:
            args = [b"7"] * nvars
            args[pos] = tx
            lines.append(b"AT+B=" + b",".join(args) + rng.choice([b"\n", b"\r\n"]))
        line_block(sc, lines)
        out.append(sig(sc, vtype, size, acc, nvars, pos))
    return out


# --------------------------------------------------------------------------- C03 / C06: capacity boundaries

def fam_bounds(rng, sid0, n):
    out = []
    for i in range(n):
        acap = rng.choice([6, 7, 8, 9, 16, 17, 64])
        shared = rng.random() < 0.5
        if shared:
            bufsize, usize = 2 * acap + rng.choice([0, 1]), -1
            ucap = acap
        else:
            ucap = rng.choice([0, 1, 2, 3, acap, 5, 12, 24, 48, 100])
            bufsize, usize = acap, ucap
        # names short enough that something fits
        cw = Cmd("+W", hw=True)                                             # raw write handler
        ci = Cmd("I", hw=True, implicit=True)                               # implicit write
        vsz = rng.choice([2, 4, 9])
        cv = Cmd("+V", hw=rng.random() < 0.5, vars=[Var(STRING, vsz, RW, None, mem=bytes(vsz))])
        nvr = rng.choice([1, 2, 3])
        cr = Cmd("+R", hr=rng.random() < 0.6, ht=rng.random() < 0.5, desc=rng.choice([None, "dd", "a longer description"]),
                 vars=[Var(rng.choice([UINT, INT, HEX]), sz, RW, rng.choice([None, "n"]), mem=bytes(rng.randrange(256) for _ in range(sz)))
                       for sz in [rng.choice([1, 2, 4]) for _ in range(nvr)]])
        cs = Cmd("+S", hr=rng.random() < 0.5, vars=[Var(STRING, 12, RW, None, mem=(b"x" * rng.randint(0, 11)).ljust(12, b"\0")),
                                                      Var(BUFHEX, 3, RW, None, mem=b"\x01\xfe\x80")])
        cl = Cmd("+L", hx=True)
        cmds = [cw, ci, cv, cr, cs, cl]
        sc = Scenario(sid0 + i, cmds, qcap=2, bufsize=bufsize, usize=usize, grain=rng.choice(["step", "compact"]), auto="" , meta={"family": "fam_bounds"})
        sc.hs(5, "x", ret=R_LIST)
        lines = []
        for L in [acap - 2, acap - 1, acap, acap + 1, 3 * acap, rng.randint(0, acap)]:
            if L < 0:
                continue
            body = bytes(rng.choice([x for x in range(0, 256) if x != 10]) for _ in range(L))
            body = body.replace(b"?", b"x") if rng.random() < 0.7 else body
            lines.append(b"AT+W=" + body + b"\n")
            lines.append(b"ATI" + body + b"\n")
            lines.append(b"AT+V=\"" + b"a" * max(0, L - 2) + b"\"\n")
        lines += [b"AT+R?\n", b"AT+R=?\n", b"AT+S?\n", b"AT+S=?\n", b"AT+L\n", b"AT+V?\r\n", b"AT+W=?\n", b"AT+W?\n"]
        rng.shuffle(lines)
        for l in lines:
            # event-side formatting at the same boundaries while a command line is being processed
            if rng.random() < 0.4:
                sc.trig(rng.choice([3, 4, 2]), rng.choice("rt"))
            sc.feed(l)
            sc.settle(6000)
        out.append(sig(sc, acap, ucap, shared))
    return out


# --------------------------------------------------------------------------- C07: literal round trip

def rt_mem(rng, vtype, size):
    if vtype == STRING and size >= 2 and rng.random() < 0.4:
        # full-length strings whose first / last characters need escaping
        k = size - 1
        body = bytearray(rng.choice(b'ab"\\\n,z') for _ in range(k))
        body[-1] = rng.choice(b'"\\\n')
        if rng.random() < 0.5:
            body[0] = rng.choice(b'"\\\n')
        return bytes(body) + b"\0"
    if vtype == STRING:
        k = rng.randint(0, size - 1)
        body = bytes(rng.choice([x for x in range(1, 256) if x != 13]) if rng.random() < 0.6 else rng.choice(b'"\\\n,a') for _ in range(k))
        return body + bytes(size - k)
    if rng.random() < 0.4:
        return rng.choice([b"\x00", b"\xff", b"\x7f", b"\x80", b"\x01"]) * size if rng.random() < 0.5 else (b"\x00" * (size - 1) + rng.choice([b"\x80", b"\x7f", b"\xff"]))
    return bytes(rng.randrange(256) for _ in range(size))


def fam_round(rng, sid0, n):
    out = []
    for i in range(n):
        nv = rng.randint(1, 6)
        vs = []
        for _ in range(nv):
            vtype = rng.choice([INT, UINT, HEX, BUFHEX, STRING])
            size = rng.choice([1, 2, 4]) if vtype in (INT, UINT, HEX) else rng.choice([1, 2, 3, 5, 8, 17, 64] if vtype == BUFHEX else [1, 2, 3, 5, 8, 17, 64])
            vs.append(Var(vtype, size, RW if not vs else rng.choice([RW, RW, RW, RO]), rng.choice([None, "v"]), mem=rt_mem(rng, vtype, size)))
        cmd = Cmd("+RT", vars=vs, hw=rng.random() < 0.3)
        # worst-case text length
        worst = 4 + sum({INT: 11, UINT: 10, HEX: 10}.get(v.type, 2 * v.size + 2) + 1 for v in vs) + 8
        half = worst + rng.choice([0, 8, 50])
        sc = Scenario(sid0 + i, [cmd], qcap=1, bufsize=2 * half, grain="compact", meta={"family": "fam_round"})
        for rep in range(rng.choice([4, 8])):
            for vi, v in enumerate(vs):
                sc.setmem(0, vi, rt_mem(rng, v.type, v.size))
            sc.op("roundtrip 0 20000")
        out.append(sig(sc, tuple((v.type, v.size) for v in vs)))
    return out


def fam_round_exh8(rng, sid0, n):
    """All 256 patterns of the 8-bit numeric types in the first 12 scenarios (64 values each), then slices of the 16-bit ones."""
    out = []
    for i in range(n):
        vtype = [INT, UINT, HEX][i % 3]
        size = 1 if i < 12 else 2
        cmd = Cmd("+E", vars=[Var(vtype, size, RW, None, mem=bytes(size))])
        sc = Scenario(sid0 + i, [cmd], qcap=1, bufsize=64, grain="compact", meta={"family": "fam_round_exh8"})
        if size == 1:
            q = (i // 3) % 4
            vals = range(64 * q, 64 * q + 64)
        else:
            vals = rng.sample(range(65536), 80) + [0, 1, 0x7fff, 0x8000, 0xffff, 0x00ff, 0xff00]
        for x in vals:
            sc.setmem(0, 0, int(x).to_bytes(size, "little"))
            sc.op("roundtrip 0 2000")
        out.append(sig(sc, vtype, size, i // 3))
    return out


# --------------------------------------------------------------------------- C08: access modes

def fam_access(rng, sid0, n):
    out = []
    for i in range(n):
        nv = rng.randint(1, 4)
        vs = []
        for _ in range(nv):
            vtype = rng.choice([INT, UINT, HEX, BUFHEX, STRING])
            size = rng.choice([1, 2, 4]) if vtype in (INT, UINT, HEX) else rng.choice([2, 3, 6])
            vs.append(Var(vtype, size, rng.choice([RW, RO, WO]), rng.choice([None, "v"]), vr=rng.random() < 0.2, vw=rng.random() < 0.2,
                          mem=rt_mem(rng, vtype, size)))
        cmd = Cmd("+A", vars=vs, hw=rng.random() < 0.4, hr=rng.random() < 0.4, ht=rng.random() < 0.2, need_all=rng.random() < 0.3)
        sc = Scenario(sid0 + i, [cmd, Cmd("+X", hx=True)], qcap=2, bufsize=400, grain=rng.choice(["step", "compact"]), meta={"family": "fam_access"})
        lines = []
        for _ in range(10):
            k = rng.randint(0, nv)
            args = []
            for v in vs[:k]:
                a = gen.valid_arg(rng, v)
                r = rng.random()
                if r < 0.25:
                    a = gen.garble(rng, a)
                elif r < 0.4 and v.type in (INT, UINT, HEX):
                    a = rng.choice(["99999999999", "-99999999999", "0xFFFFFFFFFF", "300", "70000"])
                args.append(a)
            lines.append(("AT+A=" + ",".join(args) + "\n").encode("latin-1"))
        lines += [b"AT+A?\n", b"AT+A=?\n", b"AT+A?\r\n", b"AT+A\n"]
        rng.shuffle(lines)
        for l in lines:
            if rng.random() < 0.3:
                sc.trig(0, rng.choice("rt"))
            if rng.random() < 0.3:
                vi = rng.randrange(nv)
                sc.setmem(0, vi, rt_mem(rng, vs[vi].type, vs[vi].size))
            sc.feed(l)
            sc.settle(5000)
        out.append(sig(sc, tuple((v.type, v.size, v.acc) for v in vs), cmd.hw, cmd.hr))
    return out


# --------------------------------------------------------------------------- C09: flags and their histories

def fam_flags(rng, sid0, n):
    out = []
    for i in range(n):
        names = rng.choice([["A", "AB", "ABC"], ["+T", "+TA", "+TB"], ["X1", "X12", "Y"], ["+P", "+PQ", "+PQR", "+Z"]])
        cmds = []
        for nm in names:
            imp = rng.random() < 0.15
            cmds.append(Cmd(nm, hw=True, hr=not imp, hx=not imp, ht=(not imp) and rng.random() < 0.5, implicit=imp,
                            vars=[Var(UINT, 1, RW, "x", vr=rng.random() < 0.3, vw=rng.random() < 0.3, mem=b"\x05")] if rng.random() < 0.6 else [],
                            only_test=rng.random() < 0.15, disable=rng.random() < 0.2))
        lister = Cmd("+L", hx=True)
        ng = rng.choice([1, 2, 3])
        groups = [(rng.random() < 0.2, []) for _ in range(ng)]
        groups[0] = (False, [lister])
        for c in cmds:
            groups[rng.randrange(ng)][1].append(c)
        groups = [g for g in groups if g[1]]
        sc = Scenario(sid0 + i, groups, qcap=2, bufsize=rng.choice([32, 64]), grain=rng.choice(["step", "compact"]), meta={"family": "fam_flags"})
        allc = sc.cmds()
        li = [k for k, c in enumerate(allc) if c.name == "+L"][0]
        sc.hs(li, "x", ret=R_LIST)
        sc.hs(li, "x", ret=R_LIST)
        sc.hs(li, "x", ret=R_LIST)
        for rnd in range(rng.choice([4, 7])):
            lines = []
            for nm in names:
                for k in range(1, len(nm) + 1):
                    lines.append(("AT" + nm[:k] + rng.choice(["", "?", "=1", "=?", "1", "=", "=\r"]) + "\n").encode())
            rng.shuffle(lines)
            line_block(sc, lines[:6])
            if rng.random() < 0.3:
                sc.feed(b"AT+L\n").settle(4000)
            # toggle
            for _ in range(rng.choice([1, 1, 2])):
                if rng.random() < 0.6:
                    sc.flag_cmd(rng.randrange(len(allc)), rng.choice(["disable", "disable", "only_test"]), rng.random() < 0.5)
                else:
                    sc.flag_group(rng.randrange(len(sc.groups)), rng.random() < 0.5)
        out.append(sig(sc, tuple(names), ng))
    return out


# --------------------------------------------------------------------------- C10: return code sequences

def fam_codes(rng, sid0, n):
    out = []
    term = [R_OK, R_DATA_OK, R_ERROR, R_HOLD_EXIT_OK, R_HOLD_EXIT_ERROR, R_LIST, -2, 9, 1000]
    for i in range(n):
        var = Var(UINT, 1, RW, "x", vr=rng.random() < 0.4, vw=rng.random() < 0.4, mem=b"\x05")
        cmd = Cmd("+C", hw=True, hr=True, hx=True, ht=True, vars=[var] if rng.random() < 0.7 else [], desc=rng.choice([None, "d"]))
        cu = Cmd("+U", hr=True, ht=True, vars=[Var(UINT, 2, RW, "y", vr=rng.random() < 0.3, mem=b"\x01\x02")] if rng.random() < 0.7 else [])
        sc = Scenario(sid0 + i, [cmd, cu], qcap=2, bufsize=rng.choice([48, 96]), grain=rng.choice(["step", "compact"]), meta={"family": "fam_codes"})
        seqs = 0
        for kind, line in (("w", b"AT+C=1\n"), ("r", b"AT+C?\n"), ("x", b"AT+C\n"), ("t", b"AT+C=?\r\n")):
            for _ in range(rng.choice([2, 3])):
                k = rng.choice([0, 0, 1, 2, 3, 5, 12])
                codes = [rng.choice([R_NEXT, R_DATA_NEXT]) for _ in range(k)] + [rng.choice(term)]
                for cd in codes:
                    data = None
                    if kind in ("r", "t") and rng.random() < 0.5:
                        data = bytes(rng.choice(b"abcxyz=,") for _ in range(rng.randint(0, 8)))
                    act = None
                    if cmd.vars and rng.random() < 0.4:
                        act = "setmem:0:0:%02x" % rng.randrange(256)
                    sc.hs(0, kind, "c", ret=cd, data=data, act=act)
                if cmd.vars and rng.random() < 0.3:
                    sc.vs(0, 0, "r" if kind == "r" else "w", ret=rng.choice([0, 0, 1]))
                sc.feed(line).settle(6000)
                seqs += 1
        for kind in ("r", "t"):
            for _ in range(2):
                k = rng.choice([0, 1, 2, 4])
                codes = [rng.choice([R_NEXT, R_DATA_NEXT]) for _ in range(k)] + [rng.choice(term)]
                for cd in codes:
                    data = bytes(rng.choice(b"uvw0=") for _ in range(rng.randint(0, 6))) if rng.random() < 0.5 else None
                    sc.hs(1, kind, "e", ret=cd, data=data, act=("setmem:1:0:%02x%02x" % (rng.randrange(256), rng.randrange(256))) if cu.vars and rng.random() < 0.4 else None)
                if cu.vars and cu.vars[0].vr and rng.random() < 0.5:
                    sc.vs(1, 0, "r", ret=rng.choice([0, 1, -1]))
                sc.trig(1, kind)
                if rng.random() < 0.6:
                    # the event is processed while a command line of some kind is in flight
                    sc.hs(0, rng.choice("wrxt"), "c", ret=rng.choice([R_OK, R_DATA_OK]))
                    sc.feed(rng.choice([b"AT+C=?\n", b"AT+C?\n", b"AT+C\n", b"AT+C=1\r\n"]))
                    if rng.random() < 0.5:
                        sc.wrs(gen.rand_wsched(rng, 80))
                sc.settle(6000)
        # every terminal code of an event handler of each kind, while a line of every kind is in flight (enumerated over the scenarios, not drawn)
        ek = "rt"[i % 2]
        ecode = term[(i // 2) % len(term)]
        for ck in "wrxt":
            sc.hs(1, ek, "e", ret=ecode)
            sc.hs(0, ck, "c", ret=rng.choice([R_DATA_NEXT, R_NEXT]))
            sc.hs(0, ck, "c", ret=term[(i + "wrxt".index(ck)) % len(term)])
            sc.hs(1, ek, "e", ret=ecode)
            sc.trig(1, ek)
            sc.feed({"w": b"AT+C=1\n", "r": b"AT+C?\n", "x": b"AT+C\n", "t": b"AT+C=?\n"}[ck])
            # a second event of the same kind once the line's request type is known to the parser and its handler loop / flush is under way
            sc.svc(rng.randint(18, 45))
            sc.trig(1, ek)
            sc.settle(6000)
        out.append(sig(sc, seqs, bool(cmd.vars), bool(cu.vars)))
    return out


# --------------------------------------------------------------------------- C11 / C12 / C18: schedules

def sched_scenario(rng, sid, p_rd, p_wr, qcap, seedkey, step=True):
    """Line commands (+C, +L) and event commands (+U, +V, +W) are distinct, so every unit can be attributed."""
    r2 = random.Random(seedkey)      # the same table, scripts, lines and trigger points for every schedule of this key
    cC = Cmd("+C", hr=True, hw=True, vars=[Var(UINT, 2, RW, "c", mem=b"\x10\x00")])
    cL = Cmd("+L", hx=True)
    cU = Cmd("+U", hr=True, vars=[Var(UINT, 1, RW, "u", mem=b"\x05")])
    cV = Cmd("+V")                                          # fails at once
    cW = Cmd("+W", ht=r2.random() < 0.5, desc="evt", vars=[Var(STRING, 6, RW, "w", mem=b"ab\0\0\0\0")])
    sc = Scenario(sid, [cC, cL, cU, cV, cW], qcap=qcap, bufsize=r2.choice([40, 64]), grain="step" if step else "compact", auto="bhfe" if step else "",
                  meta={"family": "fam_sched"})
    sc.hs(1, "x", ret=R_LIST)
    sc.hs(1, "x", ret=R_LIST)
    for _ in range(4):
        k = r2.choice([0, 1, 2, 3])
        for j in range(k):
            sc.hs(0, "r", "c", ret=R_DATA_NEXT, data=b"c%d" % j, act=("trig:%d:r" % r2.choice([2, 3, 4])) if r2.random() < 0.3 else None)
        sc.hs(0, "r", "c", ret=r2.choice([R_DATA_OK, R_OK, R_DATA_OK]), data=b"cend" if r2.random() < 0.5 else None)
    for _ in range(6):
        k = r2.choice([0, 1, 2])
        for j in range(k):
            sc.hs(2, "r", "e", ret=R_DATA_NEXT, data=b"u%d" % j)
        sc.hs(2, "r", "e", ret=r2.choice([R_DATA_OK, R_DATA_OK, R_OK]), data=b"uend" if r2.random() < 0.5 else None)
    # schedules differ, everything else is drawn from r2
    def bits(p, n, refuse):
        return "".join(rng.choice(refuse) if rng.random() < p else "1" for _ in range(n)) if p > 0 else ""
    sc.rds(bits(p_rd, 400, "0"))
    sc.wrs(bits(p_wr, 1200, "02n"))
    lines = [b"AT+C?\n", b"AT+L\r\n", b"AT+C=77\n", b"AT+C?\r\n", b"AT+X\n", b"AT+C=?\n"]
    r2.shuffle(lines)
    for l in lines[:r2.choice([3, 5])]:
        for _ in range(r2.choice([0, 1, 2])):
            sc.trig(r2.choice([2, 2, 3, 4]), r2.choice("rt"))
        sc.feed(l)
        sc.settle(20000)
    return sc


def fam_sched(rng, sid0, n):
    out = []
    i = 0
    while len(out) < n:
        key = rng.randrange(1 << 30)
        qcap = rng.choice([1, 2, 3])
        # the same scenario under the eager schedule and K other schedules (C12)
        for p_rd, p_wr in [(0, 0), (0.5, 0.1), (0.1, 0.5), (0.9, 0.9)]:
            if len(out) >= n:
                break
            s = sched_scenario(rng, sid0 + len(out), p_rd, p_wr, qcap, key)
            s.meta["conf_key"] = key
            out.append(sig(s, key, p_rd, p_wr))
    return out


# --------------------------------------------------------------------------- C13: ring histories

def fam_ring(rng, sid0, n):
    out = []
    for i in range(n):
        qcap = [1, 2, 3, 8][i % 4]
        cU = Cmd("+U", hr=rng.random() < 0.6, vars=[Var(UINT, 1, RW, "u", mem=b"\x05")])
        cT = Cmd("+T", ht=rng.random() < 0.5, vars=[Var(INT, 2, RW, "t", mem=b"\xff\xff")], desc=rng.choice([None, "dd"]))
        cV = Cmd("+V")
        cC = Cmd("+C", hx=True, hr=True)
        sc = Scenario(sid0 + i, [cU, cT, cV, cC], qcap=qcap, bufsize=rng.choice([32, 64]), usize=rng.choice([-1, -1, 16, 7]), grain="step", auto="fe",
                      meta={"family": "fam_ring"})
        for _ in range(30):
            sc.hs(0, "r", "e", ret=rng.choice([R_DATA_OK, R_DATA_OK, R_OK, R_ERROR, R_DATA_NEXT]), data=rng.choice([None, b"uu"]))
            sc.hs(1, "t", "e", ret=rng.choice([R_DATA_OK, R_OK, R_NEXT]))
        # deterministic opening: while the run handler of +C is being re-invoked (NEXT) and asks the observers from inside, the queue is filled to
        # capacity from outside with no event in progress: in the next service round the event machine takes the head, and the handler running
        # in that same round must see the slot free (processed command = the event, buffer not full)
        for k in (12, 15, 18, 21):          # the handler loop occupies roughly service rounds 14..28 after the line was fed
            for _ in range(14):
                sc.hs(3, "x", "c", ret=R_NEXT, act="qproc:1;q:full")
            sc.hs(3, "x", "c", ret=R_OK)
            sc.feed(b"AT+C\n")
            sc.svc(k)
            for _ in range(qcap):
                sc.trig(0, "r")
            sc.svc(4)
            sc.settle(8000)
        # the run handler of +C loops and, from inside, asks the observers and triggers: the queue as seen from a callback in the very
        # service round in which the event machine takes the next event
        for _ in range(6):
            for _ in range(rng.randint(1, 6)):
                sc.hs(3, "x", "c", ret=R_NEXT, act=rng.choice(["qproc:1;q:full", "qproc:1;q:full", "qproc:1;trig:%d:r" % rng.choice([0, 2]), "qproc:1;q:full;trig:0:t", "qproc:1;q:full;qbuf:0:n", "q:full"]))
            sc.hs(3, "x", "c", ret=R_OK)
        sc.wrs(gen.rand_wsched(rng, 600))
        for _ in range(rng.choice([40, 80])):
            r = rng.random()
            if r < 0.45:
                for _ in range(rng.randint(1, qcap + 1)):
                    sc.trig(rng.choice([0, 0, 1, 2]), rng.choice("rt"))
            elif r < 0.75:
                sc.svc(rng.randint(1, 30))
            elif r < 0.85:
                sc.qbuf(rng.choice([0, 1, 2]), rng.choice("rtn"))
            elif r < 0.9:
                sc.feed(rng.choice([b"AT+C\n", b"AT+C?\n", b"AT\n"]))
            else:
                sc.settle(8000)
        sc.settle(20000)
        out.append(sig(sc, qcap))
    return out


# --------------------------------------------------------------------------- C14: hold

def fam_hold(rng, sid0, n):
    out = []
    for i in range(n):
        kind = "wrxt"[i % 4]
        cH = Cmd("+H", hw=True, hr=True, hx=True, ht=True, vars=[Var(UINT, 1, RW, "h", mem=b"\x01")] if rng.random() < 0.5 else [])
        cU = Cmd("+U", hr=True, vars=[Var(UINT, 1, RW, "u", mem=b"\x05")])
        cN = Cmd("+N", hx=True)
        sc = Scenario(sid0 + i, [cH, cU, cN], qcap=rng.choice([1, 2]), bufsize=64, grain="step", auto="bh", meta={"family": "fam_hold"})
        line = {"w": b"AT+H=1\n", "r": b"AT+H?\n", "x": b"AT+H\n", "t": b"AT+H=?\n"}[kind]
        for rnd in range(rng.choice([2, 4])):
            pre = rng.choice([0, 0, 1, 2])
            for j in range(pre):
                sc.hs(0, kind, "c", ret=rng.choice([R_NEXT, R_DATA_NEXT]))
            sc.hs(0, kind, "c", ret=R_HOLD, act=rng.choice([None, None, "hexit:0", "q:hold"]))
            via_event = rng.random() < 0.4
            status = rng.choice([0, -1])
            if via_event:
                sc.hs(1, "r", "e", ret=rng.choice([R_DATA_OK, R_OK]))
                sc.hs(1, "r", "e", ret=R_HOLD_EXIT_OK if status == 0 else R_HOLD_EXIT_ERROR, data=rng.choice([None, b"uu"]))
            else:
                sc.hs(1, "r", "e", ret=R_DATA_OK)
                sc.hs(1, "r", "e", ret=R_DATA_OK)
            if rng.random() < 0.3:
                sc.hexit(rng.choice([0, -1]))                      # spurious, before
            sc.feed(line)
            if rng.random() < 0.6:
                sc.feed(rng.choice([b"AT+N\n", b"AT\n", b"AT+H\n"]))   # a further line already waiting
                sc.hs(0, "x", "c", ret=R_OK)
            sc.wrs(gen.rand_wsched(rng, 200))
            sc.svc(rng.randint(5, 60))
            sc.trig(1, "r")                                         # events keep being delivered during the hold
            sc.svc(rng.randint(5, 80))
            if via_event:
                sc.trig(1, "r")
                sc.svc(rng.randint(1, 60))
            else:
                sc.hexit(status)
                if rng.random() < 0.3:
                    sc.hexit(rng.choice([0, -1]))                  # repeated
            sc.svc(rng.randint(0, 5))
            if rng.random() < 0.4:
                sc.hexit(rng.choice([0, -1]))                      # during / after the release window
            sc.settle(20000)
            sc.hexit(0)                                             # spurious, after (or releases a hold taken by the queued line)
            sc.settle(20000)
        out.append(sig(sc, kind))
    return out


# --------------------------------------------------------------------------- C15: events that fail at once in every queue position

def fam_quiesce(rng, sid0, n):
    out = []
    for i in range(n):
        qcap = rng.choice([2, 3, 8])
        cBad = Cmd("+BAD")
        cLong = Cmd("+LONGNAMEXXXXXXXXXXXXXXXXXXXXXXXXXXXXXXXXXXXXXXXXX", vars=[Var(UINT, 1, RW, None, mem=b"\x01")])
        cU = Cmd("+U", hr=rng.random() < 0.5, vars=[Var(UINT, 1, RW, "u", vr=rng.random() < 0.3, mem=b"\x05")])
        cE = Cmd("+E", vars=[Var(UINT, 3, RW, None, mem=b"\0\0\0")])        # unsupported size: formatting fails
        sc = Scenario(sid0 + i, [cBad, cLong, cU, cE], qcap=qcap, bufsize=rng.choice([40, 48]), grain="step", auto="be", meta={"family": "fam_quiesce"})
        sc.vs(2, 0, "r", ret=rng.choice([0, 1]))
        for _ in range(rng.choice([3, 6])):
            ks = [rng.choice([0, 1, 2, 3]) for _ in range(rng.randint(1, qcap))]
            for k in ks:
                sc.trig(k, rng.choice("rt"))
            if rng.random() < 0.5:
                sc.feed(rng.choice([b"AT\n", b"AT+U?\n"]))
            sc.settle(20000)
        out.append(sig(sc, qcap))
    return out


def fam_offsets(rng, sid0, n):
    """Enumeration, not a draw: an event is triggered after exactly k service calls into a line, for every k of the line's
    life (both machines pass through every pair of phases, in particular both waiting for the output in the same round), then
    the system must become quiescent within the budget.  Scenario i fixes line form x event form x working-buffer layout."""
    out = []
    lines = [b"\nAT+A?\n", b"AT+A?\r\n", b"AT+A=?\n", b"AT+A\n", b"AT+A=7\n"]
    for i in range(n):
        line = lines[i % len(lines)]
        et = "rt"[(i // len(lines)) % 2]
        usize = [-1, 16][(i // (2 * len(lines))) % 2]
        cA = Cmd("+A", hx=True, vars=[Var(UINT, 1, RW, "a", mem=b"\x07")])
        cU = Cmd("+U", vars=[Var(UINT, 1, RW, "u", mem=b"\x09")])
        sc = Scenario(sid0 + i, [cA, cU], qcap=2, bufsize=48, usize=usize, grain="step", auto="be", meta={"family": "fam_offsets"})
        for _ in range(40):
            sc.hs(0, "x", "c", ret=R_OK)
        for k in range(0, 34):
            sc.feed(line)
            sc.svc(k)
            sc.trig(1, et)
            if k % 3 == 0:
                sc.trig(0, "r")
            sc.settle(4000)
        out.append(sig(sc, i))
    return out


# --------------------------------------------------------------------------- C16: mutex

def fam_mutex(rng, sid0, n):
    out = []
    base = None
    codes = [R_OK, R_DATA_OK, R_ERROR, R_HOLD_EXIT_OK, R_HOLD_EXIT_ERROR, R_LIST, R_NEXT, R_DATA_NEXT, -2, 9]
    for i in range(n):
        if i % 8 == 0:
            base = rng.randrange(1 << 30)
        r2 = random.Random(base)
        cC = Cmd("+C", hr=True, hw=True, hx=True, ht=True, vars=[Var(UINT, 1, RW, "c", vr=True, vw=True, mem=b"\x09")])
        cU = Cmd("+U", hr=True, ht=True, vars=[Var(UINT, 1, RW, "u", mem=b"\x05")])
        sc = Scenario(sid0 + i, [cC, cU], qcap=2, bufsize=64, mutex=True, grain="step", auto="bhf", meta={"family": "fam_mutex"})
        # every return code for every handler kind, in both machines, reached while the mutex is held
        for kind in "wrxt":
            for _ in range(3):
                sc.hs(0, kind, "c", ret=r2.choice(codes + [R_HOLD]))
        for kind in "rt":
            for _ in range(6):
                sc.hs(1, kind, "e", ret=r2.choice(codes))
        if i % 8 != 0:
            # lock or unlock failing at the k-th invocation (the history itself is the same for the 8 scenarios of a base)
            k = rng.randint(1, 900)
            (sc.lock_fail if rng.random() < 0.5 else sc.unlock_fail)(k, rng.choice([1, -1, 5]))
            if rng.random() < 0.3:
                (sc.lock_fail if rng.random() < 0.5 else sc.unlock_fail)(rng.randint(1, 900), 1)
        for _ in range(8):
            r = r2.random()
            if r < 0.5:
                sc.trig(1, r2.choice("rt"), api=r2.choice(["trig", "trigr", "trigt"]))
            sc.feed(r2.choice([b"AT+C?\n", b"AT+C=3\n", b"AT+C\n", b"AT+Q\n", b"AT+C=?\n"]))
            sc.svc(r2.randint(1, 40))
            if r2.random() < 0.5:
                sc.trig(1, r2.choice("rt"))
            sc.svc(r2.randint(1, 40))
            sc.hexit(r2.choice([0, -1]))
            sc.settle(6000)
        sc.hexit(0)
        sc.settle(6000)
        out.append(sig(sc, base, i % 8))
    return out


# --------------------------------------------------------------------------- C20: line sequences in all orders, stale object memory

LINE_CLASSES = [b"AT\n", b"AT+A\n", b"AT+A?\n", b"AT+A=5\n", b"AT+A=?\n", b"AT+AB=1\r\n", b"AT+\n", b"AT+A=999\n", b"ATI7\n", b"ATI\r\n",
                b"AT+A=" + b"x" * 40 + b"\n", b"xyz\n", b"AT+A?x\n", b"A\n", b"AT+A\r=\r5\n", b"\r\n", b"AT+AB\n", b"AT+A=\"q\n", b"at+ab?\r\n"]


def fam_hist(rng, sid0, n):
    out = []
    for i in range(n):
        cA = Cmd("+A", hw=rng.random() < 0.5, hr=True, hx=True, ht=rng.random() < 0.5, vars=[Var(UINT, 1, RW, "a", mem=b"\x05")])
        cAB = Cmd("+AB", hw=True, hr=True, hx=True)
        cI = Cmd("I", hw=True, implicit=True, vars=[Var(UINT, 1, RW, None, mem=b"\x01")])
        fill = rng.choice([0, 0, 0xA5, 0xFF, 0x55])
        sc = Scenario(sid0 + i, [cA, cAB, cI], qcap=1, bufsize=rng.choice([24, 32, 64]), fill=fill, grain=rng.choice(["step", "compact"]),
                      meta={"family": "fam_hist"})
        k = rng.randint(2, 4) if rng.random() < 0.5 else rng.randint(5, 12)
        pick = [rng.choice(LINE_CLASSES) for _ in range(k)]
        orders = list(itertools.permutations(pick)) if k <= 3 else [pick, pick[::-1]]
        order = list(rng.choice(orders))
        if rng.random() < 0.5:
            # fed in one piece: the lines queue up behind each other
            sc.feed(b"".join(order)).settle(30000)
        else:
            line_block(sc, order, 10000)
        out.append(sig(sc, tuple(order), fill))
    return out


# --------------------------------------------------------------------------- C12: literal schedule independence (no events in play)

def conf_scenario(rng, sid, key, variant):
    r2 = random.Random(key)
    cC = Cmd("+C", hr=True, hw=True, hx=r2.random() < 0.5, ht=True, desc=r2.choice([None, "dd"]),
             vars=[Var(UINT, 2, RW, "c", vw=r2.random() < 0.5, mem=b"\x10\x00"), Var(STRING, 6, RW, "s", mem=b"ab\0\0\0\0")])
    cL = Cmd("+L", hx=True)
    cI = Cmd("I", hw=True, implicit=True)
    sc = Scenario(sid, [cC, cL, cI], qcap=1, bufsize=r2.choice([96, 128, 64]), grain="compact", meta={"family": "fam_conf", "conf_key": key, "variant": variant})
    sc.note("conf_%d_%d" % (key, variant))
    sc.hs(1, "x", ret=R_LIST)
    sc.hs(1, "x", ret=R_LIST)
    for _ in range(4):
        for j in range(r2.choice([0, 1, 2, 3])):
            sc.hs(0, "r", "c", ret=r2.choice([R_DATA_NEXT, R_NEXT]), data=(b"c%d" % j) if r2.random() < 0.6 else None)
        sc.hs(0, "r", "c", ret=r2.choice([R_DATA_OK, R_OK, R_ERROR]), data=b"cend" if r2.random() < 0.5 else None)
    for _ in range(3):
        sc.hs(0, "t", "c", ret=r2.choice([R_DATA_OK, R_DATA_NEXT, R_OK]))
    lines = [b"AT+C?\r\n", b"AT+L\r\n", b"AT+C=77,\"xy\"\n", b"AT+C?\n", b"AT+X\r\n", b"AT+C=?\r\n", b"ATIhello\r\n", b"AT+C=1,\"toolongstring\"\n", b"AT\r\n", b"\r\nAT+L\n"]
    r2.shuffle(lines)
    lines = lines[:r2.choice([4, 6])]
    if variant == 0:
        pass                                           # eager: everything ready
    elif variant == 1:
        sc.rds("10" * 400)                             # one byte every other call
        sc.wrs("".join(rng.choice("10") for _ in range(1500)))
    else:
        p = rng.choice([0.3, 0.6, 0.9])
        sc.rds("".join("0" if rng.random() < p else "1" for _ in range(600)))
        sc.wrs("".join(rng.choice("02n") if rng.random() < p else "1" for _ in range(2500)))
    if r2.random() < 0.5:
        sc.feed(b"".join(lines)).settle(60000)
    else:
        for l in lines:
            sc.feed(l).settle(30000)
    return sc


def fam_conf(rng, sid0, n):
    out = []
    while len(out) < n:
        key = rng.randrange(1 << 30)
        for variant in range(4):
            if len(out) >= n:
                break
            out.append(sig(conf_scenario(rng, sid0 + len(out), key, variant), key, variant))
    return out


# --------------------------------------------------------------------------- C20: literal history independence (sequence vs. each line alone)

def fam_hist_twins(rng, sid0, n):
    """Scenario 0 of a key feeds k lines in one piece; scenarios 1..k feed each line alone to a fresh parser.  The driver compares
    result codes (with their newline style) and handler invocations: the sequence run must equal the concatenation of the single runs.
    The table is chosen so that these do not depend on variable values."""
    out = []
    while len(out) < n:
        key = rng.randrange(1 << 30)
        names = rng.choice([["+TA", "+TB", "Z"], ["+A", "+AB", "I"], ["+ONE", "+TEN", "+TEA", "Q"]])
        k = rng.randint(2, 5)
        lines = []
        for _ in range(k):
            nm = rng.choice(names)
            typed = nm[:rng.randint(1, len(nm))] if rng.random() < 0.7 else nm
            sfx = rng.choice(["", "?", "?", "?", "=1", "=?", "=x", "?x", "=", "1", ""])
            lines.append(("AT" + typed + sfx + rng.choice(["\n", "\r\n"])).encode())
        if rng.random() < 0.3:
            lines[rng.randrange(k)] = rng.choice([b"AT\n", b"\r\n", b"xx\n", b"AT+\r\n", b"A\n"])
        fill = rng.choice([0, 0, 0xA5])
        bufsize = rng.choice([32, 64])

        def mk(sid, variant, feed):
            cmds = [Cmd(nm, hw=True, hr=True, hx=True, ht=True, implicit=(nm == "I"), vars=[Var(UINT, 1, RW, "v", mem=b"\x05")] if nm != "Z" else []) for nm in names]
            for c in cmds:
                if c.implicit:
                    c.hr = c.hx = c.ht = False
            sc = Scenario(sid, cmds, qcap=1, bufsize=bufsize, fill=fill, grain="compact", meta={"family": "fam_hist_twins"})
            sc.note("hist_%d_%d" % (key, variant))
            sc.feed(feed).settle(60000)
            return sc
        grp = [mk(sid0 + len(out), 0, b"".join(lines))]
        for i, l in enumerate(lines):
            grp.append(mk(sid0 + len(out) + 1 + i, i + 1, l))
        for s in grp:
            out.append(sig(s, key, len(lines)))
    return out


# --------------------------------------------------------------------------- C18: input cut at every byte, busy sampled at quiescence

def fam_cut(rng, sid0, n):
    out = []
    for i in range(n):
        names = rng.choice([["+SET", "+SEND", "+X"], ["+TA", "+TB", "Z"], ["+A", "+AB", "+B"], ["Q1", "Q12", "+M", "W"]])
        cmds = [all_handlers(nm, vars=[Var(UINT, 1, RW, "x", mem=b"\x05")] if rng.random() < 0.5 else []) for nm in names]
        sc = Scenario(sid0 + i, cmds, qcap=1, bufsize=rng.choice([32, 64]), grain="step", auto="b", meta={"family": "fam_cut"})
        for _ in range(rng.choice([6, 10])):
            nm = rng.choice(names)
            typed = nm[:rng.randint(1, len(nm))]
            line = ("AT" + typed + rng.choice(["", "?", "=1", "=?", "=x,y", "!", "?x"]) + rng.choice(["\n", "\r\n"])).encode()
            if rng.random() < 0.15:
                line = rng.choice([b"hello\n", b"AX\r\n", b"AT+SET!\n", b"\r\n", b"A\n"])
            cut = rng.randint(1, len(line) - 1) if len(line) > 1 else 0
            sc.feed(line[:cut]).settle(5000)
            sc.q("busy")
            sc.feed(line[cut:]).settle(5000)
            sc.q("busy")
        out.append(sig(sc, tuple(names)))
    return out


# --------------------------------------------------------------------------- C02 / C09: implicit-write commands, their prefixes and their flags

def fam_implicit(rng, sid0, n):
    out = []
    for i in range(n):
        base = rng.choice(["D", "+P", "X1"])
        ext = [base + "X", base + "XY", base + "A"]
        imp_disabled = [False, True, False, True][i % 4]
        grp_disabled = [False, False, True, True][i % 4] and rng.random() < 0.5
        imp = Cmd(base, hw=True, implicit=True, disable=imp_disabled, only_test=rng.random() < 0.2,
                  vars=[Var(UINT, 1, RW, None, mem=b"\x01")] if rng.random() < 0.5 else [])
        others = [Cmd(nm, hw=True, hr=True, hx=True, ht=rng.random() < 0.5, only_test=rng.random() < 0.15,
                      vars=[Var(UINT, 1, RW, "v", mem=b"\x05")] if rng.random() < 0.5 else []) for nm in ext[:rng.choice([1, 2, 3])]]
        pos = rng.randrange(len(others) + 1)
        g0 = others[:pos]
        g1 = [imp] + others[pos:]
        groups = ([(False, g0)] if g0 else []) + [(grp_disabled, g1)]
        sc = Scenario(sid0 + i, groups, qcap=1, bufsize=rng.choice([32, 64]), grain=rng.choice(["step", "compact"]), meta={"family": "fam_implicit"})
        allc = sc.cmds()
        for rnd in range(3):
            lines = []
            for nm in [base] + [c.name for c in others]:
                for sfx in ["", "?", "=?", "=1", "7", "=", "hello"]:
                    lines.append(("AT" + (nm.lower() if rng.random() < 0.3 else nm) + sfx + rng.choice(["\n", "\r\n"])).encode())
            rng.shuffle(lines)
            line_block(sc, lines[:10])
            k = rng.randrange(len(allc))
            sc.flag_cmd(k, rng.choice(["disable", "only_test"]), rng.random() < 0.5)
            if rng.random() < 0.5:
                sc.flag_group(len(sc.groups) - 1, rng.random() < 0.5)
        out.append(sig(sc, base, imp_disabled, grp_disabled, len(others)))
    return out


# --------------------------------------------------------------------------- C08: non-interference of write-only contents (paired runs)

def fam_wo_twins(rng, sid0, n):
    """Scenarios of one key are identical except for what the write-only variables hold; output and handler invocations must be identical.
    The capacity sweeps around the length of the READ text so that 'does it fit' decisions are exercised too."""
    out = []
    while len(out) < n:
        key = rng.randrange(1 << 30)
        r2 = random.Random(key)
        nv = r2.randint(1, 4)
        spec = []
        for _ in range(nv):
            vtype = r2.choice([INT, UINT, HEX, BUFHEX, STRING, STRING])
            size = r2.choice([1, 2, 4]) if vtype in (INT, UINT, HEX) else r2.choice([4, 8, 20])
            spec.append((vtype, size, r2.choice([RW, WO, WO, RO]), r2.choice([None, "v"]), rt_mem(r2, vtype, size)))
        if not any(a == WO for _, _, a, _, _ in spec):
            spec[r2.randrange(nv)] = spec[0][:2] + (WO,) + spec[0][3:]
        est = 4 + sum({INT: 4, UINT: 4, HEX: 2 + 2 * s}.get(t, 2 * s if t == BUFHEX else 2) + 1 for t, s, a, _, _ in spec)
        hr, ht = r2.random() < 0.4, r2.random() < 0.3
        for cap in r2.sample(range(max(6, est - 6), est + 10), 3):
            lines = [b"AT+W?\n", b"AT+W=?\n", b"AT+W?\r\n"]
            for variant in range(2):
                vs = []
                for (t, s, a, nm, mem) in spec:
                    m2 = mem
                    if a == WO and variant == 1:
                        m2 = rt_mem(rng, t, s) if t != STRING else (b"x" * rng.randint(0, s - 1)).ljust(s, b"\0")
                    elif a == WO and t == STRING:
                        m2 = b"\0" * s
                    vs.append(Var(t, s, a, nm, mem=m2))
                cmd = Cmd("+W", hr=hr, ht=ht, hw=True, vars=vs)
                sc = Scenario(sid0 + len(out), [cmd], qcap=2, bufsize=2 * cap, grain="compact", meta={"family": "fam_wo_twins"})
                sc.note("conf_%d%02d_%d" % (key % 10000000, cap, variant))
                for l in lines:
                    sc.feed(l).settle(8000)
                sc.trig(0, "r").settle(8000)
                sc.trig(0, "t").settle(8000)
                out.append(sig(sc, key, cap, variant))
    return out[:n]


# --------------------------------------------------------------------------- C19 / C06: capacities exactly around the TEST and READ texts

def py_test_len(c):
    n = len(c.name) + 1
    for k, v in enumerate(c.vars):
        ty = {INT: "INT", UINT: "UINT", HEX: "HEX"}.get(v.type)
        ty = (ty + str(8 * v.size)) if ty else ("HEXBUF" if v.type == BUFHEX else "STRING")
        n += (1 if k else 0) + 1 + (len(v.name) + 1 if v.name is not None else 0) + len(ty) + 4 + 1
    return n + (1 + len(c.desc) if c.desc is not None else 0)


def py_read_len(c):
    n = len(c.name) + 1
    for k, v in enumerate(c.vars):
        n += 1 if k else 0
        if v.type in (INT, UINT):
            x = int.from_bytes(v.mem, "little", signed=(v.type == INT))
            n += 1 if v.acc == WO else len(str(x))
        elif v.type == HEX:
            n += 2 + 2 * v.size
        elif v.type == BUFHEX:
            n += 2 * v.size
        else:
            body = b"" if v.acc == WO else v.mem.split(b"\0")[0]
            n += 2 + sum(2 if ch in b'"\\\n' else 1 for ch in body)
    return n


def fam_textfit(rng, sid0, n):
    out = []
    for i in range(n):
        nv = rng.randint(1, 3)
        vs = []
        for _ in range(nv):
            vtype = rng.choice([INT, UINT, HEX, BUFHEX, STRING])
            size = rng.choice([1, 2, 4]) if vtype in (INT, UINT, HEX) else rng.choice([2, 3, 5])
            vs.append(Var(vtype, size, rng.choice([RW, RW, RO, WO]), rng.choice([None, "v", "nm"]), mem=rt_mem(rng, vtype, size)))
        cmd = Cmd(rng.choice(["+X", "+LONGER", "Q"]), desc=rng.choice([None, None, "d", "some text"]), hr=rng.random() < 0.3, ht=rng.random() < 0.3, hw=True, vars=vs)
        which = "test" if i % 2 == 0 else "read"
        L = py_test_len(cmd) if which == "test" else py_read_len(cmd)
        cap = max(6, L + [-1, 0, 1, 2][(i // 2) % 4])
        shared = rng.random() < 0.5
        sc = Scenario(sid0 + i, [cmd], qcap=1, bufsize=2 * cap if shared else cap, usize=-1 if shared else cap, grain=rng.choice(["step", "compact"]),
                      meta={"family": "fam_textfit"})
        for l in ([b"AT" + cmd.name.encode() + b"=?\n", b"AT" + cmd.name.encode() + b"=?\r\n"] if which == "test" else [b"AT" + cmd.name.encode() + b"?\n", b"AT" + cmd.name.encode() + b"?\r\n"]):
            sc.feed(l).settle(6000)
        sc.trig(0, "t" if which == "test" else "r").settle(6000)
        sc.feed(b"AT" + cmd.name.encode() + (b"=?\n" if which == "read" else b"?\n")).settle(6000)
        out.append(sig(sc, which, L, cap, shared, cmd.desc is None))
    return out


# --------------------------------------------------------------------------- unregistered command descriptors (events only)

def fam_extcmd(rng, sid0, n):
    """Events triggered with command descriptors that are not part of the table (the API accepts any descriptor): names equal
    to / prefixes of registered names, own variables, handler scripts that release a hold, observers asked about them."""
    out = []
    for i in range(n):
        qcap = [1, 2, 3, 8][i % 4]
        cC = Cmd("+C", hx=True, hr=True, hw=True, vars=[Var(UINT, 1, RW, "c", mem=b"\x07")])
        cU = Cmd("+U", hr=rng.random() < 0.5, vars=[Var(UINT, 2, RW, "u", mem=b"\x05\x00")])
        cH = Cmd("+H", hx=True)
        x1 = Cmd(rng.choice(["+U", "+X", "+C", "+"]), hr=rng.random() < 0.6, ht=rng.random() < 0.4, desc=rng.choice([None, "ext"]), implicit=rng.random() < 0.3,
                 vars=[Var(rng.choice([INT, UINT, HEX]), rng.choice([1, 2, 4]), rng.choice([RW, RO, WO]), rng.choice([None, "x"]), vr=rng.random() < 0.3,
                           mem=bytes(rng.randrange(256) for _ in range(4))[:1])] if False else
                      [Var(UINT, 1, rng.choice([RW, RO, WO]), rng.choice([None, "x"]), vr=rng.random() < 0.3, mem=bytes([rng.randrange(256)]))])
        x2 = Cmd("+Y", hr=True, ht=True, vars=[Var(STRING, 4, RW, "s", mem=b"ab\x00\x00"), Var(BUFHEX, 2, RW, None, mem=b"\x12\xab")])
        shared = rng.random() < 0.5
        sc = Scenario(sid0 + i, [(False, [cC, cU]), (rng.random() < 0.3, [cH])], qcap=qcap, bufsize=rng.choice([40, 64]) if shared else 32,
                      usize=-1 if shared else rng.choice([12, 24, 32]), grain=rng.choice(["step", "step", "compact"]), auto="bhfe",
                      meta={"family": "fam_extcmd"})
        sc.xcmds = [x1, x2]
        X1, X2 = 3, 4
        for _ in range(12):
            sc.hs(X1, "r", "e", ret=rng.choice([R_DATA_OK, R_DATA_OK, R_OK, R_ERROR, R_DATA_NEXT, R_NEXT, R_HOLD_EXIT_OK, R_HOLD_EXIT_ERROR]),
                  data=rng.choice([None, None, b"xx", b""]))
            sc.hs(X1, "t", "e", ret=rng.choice([R_DATA_OK, R_OK, R_NEXT, R_LIST]))
            sc.hs(X2, "r", "e", ret=rng.choice([R_DATA_OK, R_DATA_NEXT, R_OK]), act=rng.choice([None, None, "trig:%d:r" % X1, "q:full", "hexit:0"]))
            sc.hs(X2, "t", "e", ret=rng.choice([R_DATA_OK, R_OK]))
            sc.hs(1, "r", "e", ret=rng.choice([R_DATA_OK, R_OK]))
        sc.hs(2, "x", "c", ret=R_HOLD)
        sc.hs(0, "x", "c", ret=R_OK, act="trig:%d:%s" % (rng.choice([X1, X2]), rng.choice("rt")))
        sc.wrs(gen.rand_wsched(rng, 400))
        sc.rds(gen.rand_sched(rng, 200))
        for _ in range(rng.choice([12, 24])):
            r = rng.random()
            if r < 0.4:
                for _ in range(rng.randint(1, qcap + 1)):
                    sc.trig(rng.choice([X1, X1, X2, 1]), rng.choice("rt"), api=rng.choice(["trig", "trigr", "trigt"]))
            elif r < 0.6:
                sc.svc(rng.randint(1, 30))
            elif r < 0.7:
                sc.qbuf(rng.choice([X1, X2, 1]), rng.choice("rtn"))
            elif r < 0.75:
                sc.qproc(1)
            elif r < 0.9:
                sc.feed(rng.choice([b"AT+C\n", b"AT+C?\r\n", b"AT+U?\n", b"AT+H\n", b"AT+X\n", b"AT+Y?\n", b"AT+U=3\n", b"AT+\n"]))
            else:
                sc.settle(6000)
        sc.settle(8000)
        sc.hexit(0)
        sc.settle(8000)
        out.append(sig(sc, qcap, x1.name, shared))
    return out


# --------------------------------------------------------------------------- names equal ignoring case (registration order decides)

def fam_samename(rng, sid0, n):
    """Two or three commands whose names are equal ignoring case (or literally equal), every implicit_write / disable mask,
    every registration order (enumerated by i); each spelling is typed with every suffix.  'First in registration order' (C02),
    also for implicit-write commands, and what a disabled twin hides (C09)."""
    out = []
    spell = [["+dial", "+DIAL", "+Dial"], ["D", "d", "D"], ["+q1", "+Q1", "+q1"]]
    for i in range(n):
        k = 2 + (i % 2)
        names = spell[(i // 2) % 3][:k]
        perm = list(itertools.permutations(range(k)))[(i // 6) % (2 if k == 2 else 6)]
        impmask = (i // 3) % (1 << k)
        dismask = (i // 5) % (1 << k) if i % 4 == 3 else 0
        cmds = []
        for j in perm:
            imp = bool(impmask >> j & 1)
            cmds.append(Cmd(names[j], hw=True, hr=not imp and rng.random() < 0.7, hx=not imp and rng.random() < 0.7, ht=not imp and rng.random() < 0.3, implicit=imp,
                            disable=bool(dismask >> j & 1), vars=[Var(UINT, 1, RW, None, mem=bytes([j + 1]))] if rng.random() < 0.4 else []))
        longer = Cmd(names[0] + "x", hx=True, hw=True)
        pos = rng.randrange(len(cmds) + 1)
        table = cmds[:pos] + [longer] + cmds[pos:]
        sc = Scenario(sid0 + i, table, qcap=1, bufsize=rng.choice([32, 64]), grain=rng.choice(["step", "compact"]), meta={"family": "fam_samename"})
        lines = []
        for nm in sorted(set(names + [names[0].swapcase(), names[0] + "x", names[0] + "X", names[0][:-1]])):
            for sfx in ["", "?", "=?", "=1", "123", "=\"x\"", "=", "?1"]:
                lines.append(("AT" + nm + sfx + rng.choice(["\n", "\r\n"])).encode())
        rng.shuffle(lines)
        line_block(sc, lines[:28])
        out.append(sig(sc, tuple(names), perm, impmask, dismask))
    return out


# --------------------------------------------------------------------------- every byte value at every position of a numeric / hex argument

def fam_bytes(rng, sid0, n):
    """For each numeric type and for hex buffers: a well-formed argument in which one position is replaced by each byte value
    1..255 (LF, CR and ',' excepted) - 'matches the type's grammar' quantifies over bytes, not over ASCII.  Enumerated: scenario i
    covers byte slice i % 4 of kind (i // 4) % 4; 16 scenarios cover everything."""
    out = []
    kinds = [("bufhex", BUFHEX, 2, "1b2C"), ("hexnum", HEX, 2, "0x1b"), ("uint", UINT, 1, "12"), ("int", INT, 1, "-12")]
    for i in range(n):
        name, vtype, size, good = kinds[(i // 4) % 4]
        lo = 64 * (i % 4)
        var = Var(vtype, size, RW, "v", vw=rng.random() < 0.3, mem=bytes([0xEE] * size))
        other = Var(UINT, 1, RW, "w", mem=b"\x09")
        cmd = Cmd("+B", hw=rng.random() < 0.7, vars=[var, other] if rng.random() < 0.5 else [var])
        sc = Scenario(sid0 + i, [cmd], qcap=1, bufsize=32, grain="compact", meta={"family": "fam_bytes"})
        for b in range(max(lo, 1), lo + 64):
            if b in (10, 13, 44):
                continue
            for p in range(len(good)):
                txt = good[:p].encode() + bytes([b]) + good[p + 1:].encode()
                sc.feed(b"AT+B=" + txt + (b",3" if len(cmd.vars) > 1 and rng.random() < 0.5 else b"") + b"\n")
            sc.settle(20000)
            if b % 16 == 0:
                sc.setmem(0, 0, bytes([0xEE] * size))
        out.append(sig(sc, name, lo))
    return out


# --------------------------------------------------------------------------- buffer geometry x every trigger offset

def fam_geom(rng, sid0, n):
    """Shared buffers of odd size and separate buffers of unequal sizes; an event is triggered k service calls after a command line
    was fed, for every k across the whole command transaction (enumerated), so the event is formatted / waiting / written while the
    command machine is in each of its phases (parse, handler, flush of data, acknowledge, next 'AT').  C11 (units intact), C03 (halves)."""
    out = []
    geoms = [(13, -1), (27, -1), (16, 9), (12, 20), (41, -1), (14, 6)]
    kinds = [b"AT+C?\n", b"AT+C=5\r\n", b"AT+L\n", b"AT+C=?\n", b"AT+N\n"]
    for i in range(n):
        bufsize, usize = geoms[i % len(geoms)]
        line = kinds[(i // len(geoms)) % len(kinds)]
        cC = Cmd("+C", hr=(i // 2) % 3 == 2, hw=True, vars=[Var(UINT, 1, RW, "c", mem=b"\x07")])     # mostly without handlers: nothing but the units themselves is judged
        cL = Cmd("+L", hx=True)
        cU = Cmd("+U", hr=(i // 2) % 3 == 1, vars=[Var(UINT, 2, RW, "u", mem=b"\x39\x30")])      # +U=12345: as long as the small halves allow
        cT = Cmd("+T", desc="t", vars=[Var(INT, 1, RW, None, mem=b"\x80")])
        sc = Scenario(sid0 + i, [cC, cL, cU, cT], qcap=2, bufsize=bufsize, usize=usize, grain="step", auto="b", meta={"family": "fam_geom"})
        for _ in range(80):
            sc.hs(0, "r", "c", ret=R_DATA_OK)
            sc.hs(0, "w", "c", ret=R_OK)
            sc.hs(1, "x", "c", ret=R_LIST if (i // 3) % 2 else R_OK)
            sc.hs(2, "r", "e", ret=R_DATA_OK)
        for k in range(0, 34):                      # nothing here is drawn at random: the family is an enumeration
            sc.feed(line)
            sc.svc(k) if k else None
            sc.trig(2, "r")
            if k % 3 == 0:
                sc.trig(3, "rt"[(k // 3) % 2])
            sc.settle(4000)
        out.append(sig(sc, bufsize, usize, line))
    return out
