"""Seeded scenario generators (DESIGN.md section 4.2).  Everything stays inside the supported domain of section 5."""
import random
from catlib import *

NAME_ALPHA = "ABCDEFGHIJKLMNOPQRSTUVWXYZ0123456789+#$@_%&"


def rand_name(rng, maxlen=5, alpha=None):
    alpha = alpha or "AB+T1"
    n = rng.randint(1, maxlen)
    s = "".join(rng.choice(alpha) for _ in range(n))
    if rng.random() < 0.3:
        s = "".join(ch.lower() if rng.random() < 0.5 else ch for ch in s)
    return s


def related_names(rng, n, alpha=None, maxlen=5):
    """n names with planted prefix / duplicate relations."""
    names = []
    for _ in range(n):
        r = rng.random()
        if names and r < 0.25:
            base = rng.choice(names)
            names.append(base + rand_name(rng, 2, alpha))          # extension of an existing name
        elif names and r < 0.4:
            base = rng.choice(names)
            names.append(base[:max(1, rng.randint(1, len(base)))])  # prefix (or duplicate) of an existing name
        elif names and r < 0.45:
            names.append(rng.choice(names).swapcase())              # same name, other case
        else:
            names.append(rand_name(rng, maxlen, alpha))
    return names


def rand_mem(rng, vtype, size):
    if vtype == STRING:
        n = rng.randint(0, size - 1) if size > 0 else 0
        body = bytes(rng.choice(b'ab"\\\nz,\xff\x01 ') for _ in range(n))
        return body + bytes(size - n)
    if rng.random() < 0.3:
        return rng.choice([b"\x00", b"\xff", b"\x7f", b"\x80"]) * size
    return bytes(rng.randrange(256) for _ in range(size))


def rand_var(rng, named=None):
    vtype = rng.choice([INT, UINT, HEX, BUFHEX, STRING])
    if vtype in (INT, UINT, HEX):
        size = rng.choice([1, 2, 4, 1, 2, 4, 1, 2, 4, 3, 8])
    else:
        size = rng.choice([1, 2, 3, 4, 5, 8])
    name = None
    if named if named is not None else rng.random() < 0.6:
        name = rng.choice(["x", "val", "", "n1"])
    return Var(vtype, size, rng.choice([RW, RW, RO, WO]), name, rng.random() < 0.25, rng.random() < 0.25,
               rand_mem(rng, vtype, size))


def rand_cmd(rng, name, allow_implicit=True):
    implicit = allow_implicit and rng.random() < 0.12
    nv = rng.choice([0, 1, 1, 2, 2, 3])
    c = Cmd(name,
            desc=rng.choice([None, None, "desc", "", "two\nlines"]),
            hw=rng.random() < 0.5,
            hr=(not implicit) and rng.random() < 0.4,
            hx=(not implicit) and rng.random() < 0.5,
            ht=(not implicit) and rng.random() < 0.3,
            need_all=rng.random() < 0.3, only_test=rng.random() < 0.06, disable=rng.random() < 0.06,
            implicit=implicit, vars=[rand_var(rng) for _ in range(nv)])
    return c


def valid_arg(rng, v):
    """An argument text that is (usually) acceptable for variable v."""
    if v.type == INT:
        lim = {1: 127, 2: 32767, 4: 2147483647}.get(v.size, 100)
        x = rng.choice([0, 1, -1, lim, -lim - 1, rng.randint(-lim - 1, lim)])
        return ("%d" % x) if rng.random() < 0.9 else ("+%d" % abs(x))
    if v.type == UINT:
        lim = {1: 255, 2: 65535, 4: 4294967295}.get(v.size, 100)
        return "%d" % rng.choice([0, 1, lim, rng.randint(0, lim)])
    if v.type == HEX:
        lim = {1: 255, 2: 65535, 4: 4294967295}.get(v.size, 100)
        x = rng.choice([0, lim, rng.randint(0, lim)])
        return rng.choice(["0x%X", "0x%x", "0X%02X", "0x%08x"]) % x
    if v.type == BUFHEX:
        n = rng.randint(1, max(1, v.size))
        return "".join(rng.choice("0123456789abcdefABCDEF") for _ in range(2 * n))
    n = rng.randint(0, max(0, v.size - 1))
    body = "".join(rng.choice(['a', 'B', ' ', ',', '\\\\', '\\"', '\\n', 'z']) for _ in range(n))
    return '"' + body + '"'


def garble(rng, s):
    """Turn a text into a near miss."""
    r = rng.random()
    if not s or r < 0.15:
        return s + rng.choice(["x", ",", "0", "\"", "-", " "])
    i = rng.randrange(len(s))
    if r < 0.4:
        return s[:i] + rng.choice("xg-+\"\\, 9F") + s[i + 1:]
    if r < 0.6:
        return s[:i] + s[i + 1:]
    if r < 0.8:
        return s + s
    return rng.choice(["", "-", "+", "0x", "\"", "\"\\", "99999999999999999999999", "0x11111111111111111", "-129", "256", "65536", "4294967296", "-2147483649"])


def rand_line(rng, sc, cmds=None):
    """One input line (bytes, with terminator) aimed at scenario sc's table."""
    cmds = cmds or sc.cmds()
    r = rng.random()
    if r < 0.04:
        body = ""
    elif r < 0.08:
        body = rng.choice(["AT", "at", "A", "ATT", "T", "AT?", "AT=", "AT=?", "\x00", "AT\x00"])
    elif r < 0.14:
        body = "".join(chr(rng.randrange(1, 256)) for _ in range(rng.randint(1, 12))).replace("\n", "x")
    else:
        c = rng.choice(cmds)
        name = c.name
        q = rng.random()
        if q < 0.15 and len(name) > 1:
            name = name[:rng.randint(1, len(name) - 1)]          # abbreviation
        elif q < 0.19:
            name = name + rng.choice(["A", "1", "+", "Z"])       # too long
        elif q < 0.22:
            i = rng.randrange(len(name))
            name = name[:i] + rng.choice("QZ9!*") + name[i + 1:]  # wrong / illegal character
        if rng.random() < 0.5:
            name = "".join(ch.lower() if rng.random() < 0.5 else ch.upper() for ch in name)
        k = rng.random()
        if k < 0.25:
            suffix = ""
        elif k < 0.45:
            suffix = "?"
        elif k < 0.55:
            suffix = "=?"
        elif k < 0.6:
            suffix = rng.choice(["??", "?x", "=?x", "=??"])
        else:
            args = []
            nargs = rng.choice([len(c.vars), len(c.vars), rng.randint(0, len(c.vars) + 1)])
            for i in range(nargs):
                v = c.vars[i] if i < len(c.vars) else rand_var(rng)
                a = valid_arg(rng, v)
                if rng.random() < 0.12:
                    a = garble(rng, a)
                args.append(a)
            suffix = ("" if c.implicit and rng.random() < 0.8 else "=") + ",".join(args)
            if not c.vars and rng.random() < 0.5:
                suffix = "=" + rng.choice(["", "free text", "?", "?x", "1,2", "\x00x"])
            if rng.random() < 0.06:
                suffix += "x" * rng.choice([sc.acap - 2, sc.acap - 1, sc.acap, sc.acap + 1, 3 * sc.acap])
        body = rng.choice(["AT", "AT", "AT", "at", "aT", "At"]) + name + suffix
    # CR placement
    e = rng.random()
    if e < 0.5:
        line = body + "\n"
    elif e < 0.85:
        line = body + "\r\n"
    else:
        i = rng.randint(0, len(body))
        line = body[:i] + "\r" + body[i:] + rng.choice(["\n", "\r\n"])
    return line.encode("latin-1")


CODES_TERMINAL = [R_OK, R_DATA_OK, R_ERROR, R_OK, R_DATA_OK, -2, 9, 1000, R_HOLD_EXIT_OK, R_HOLD_EXIT_ERROR, R_LIST]
CODES_CONT = [R_NEXT, R_DATA_NEXT]


def rand_script(rng, sc, ci, kind, fsm, allow_hold, allow_nested, maxlen=4):
    """Append a random finite handler script for (cmd, kind, fsm) that ends with a terminal code."""
    cap = sc.acap if fsm == "c" else sc.ucap
    n = rng.randint(0, maxlen)
    for i in range(n + 1):
        last = i == n
        ret = rng.choice(CODES_TERMINAL if last else CODES_CONT)
        if last and allow_hold and fsm == "c" and rng.random() < 0.25:
            ret = R_HOLD
        data = None
        if kind in ("r", "t") and rng.random() < 0.4 and cap > 2:
            k = rng.randint(0, min(cap - 1, 10))
            data = bytes(rng.choice(b"abc,=+\"xyz\r") for _ in range(k))
        act = None
        if allow_nested and rng.random() < 0.2:
            tgt = rng.randrange(len(sc.allcmds()))
            act = rng.choice(["trig:%d:r" % tgt, "trig:%d:t" % tgt, "hexit:0", "hexit:-1", "q:busy", "q:hold", "q:full",
                              "qproc:1;q:full", "qproc:1;trig:%d:r" % tgt, "qproc:1;qbuf:%d:n" % tgt])
        if rng.random() < 0.15:
            c = sc.allcmds()[ci]
            if c.vars:
                vi = rng.randrange(len(c.vars))
                a = "setmem:%d:%d:%s" % (ci, vi, hx(rand_mem(rng, c.vars[vi].type, c.vars[vi].size)))
                act = a if act is None else act + ";" + a
        sc.hs(ci, kind, fsm, ret=ret, data=data, act=act)


def rand_sched(rng, n=200):
    p = rng.choice([0.0, 0.0, 0.1, 0.5, 0.9])
    if p == 0.0:
        return ""
    return "".join("0" if rng.random() < p else "1" for _ in range(n))


def rand_wsched(rng, n=300):
    p = rng.choice([0.0, 0.0, 0.1, 0.5, 0.9])
    if p == 0.0:
        return ""
    return "".join(rng.choice("02n") if rng.random() < p else "1" for _ in range(n))


def gen_general(rng, sid, qcap=None, max_cmds=6, lines=3, grain="step", mutex=None, events=True, holds=True,
                auto="bhfe", fill=0, sched=True, flags=True, alpha=None):
    """A general random scenario: table, scripts, lines, schedules, triggers, hold exits, queries, flag toggles."""
    qcap = qcap or rng.choice([1, 2, 3, 8])
    ncmd = rng.randint(1, max_cmds)
    ngroups = rng.choice([1, 1, 2, 3])
    names = related_names(rng, ncmd, alpha)
    cmds = [rand_cmd(rng, nm) for nm in names]
    groups = [(rng.random() < 0.08, []) for _ in range(min(ngroups, ncmd))]
    for i, c in enumerate(cmds):
        groups[i % len(groups) if i < len(groups) else rng.randrange(len(groups))][1].append(c)
    groups = [g for g in groups if g[1]]
    mutex = (rng.random() < 0.2) if mutex is None else mutex
    minhalf = max(6, (ncmd + 3) // 4)
    half = rng.choice([minhalf, minhalf + 1, minhalf + 2, 12, 16, 32, 64])
    if rng.random() < 0.5:
        bufsize, usize = 2 * half + rng.choice([0, 1]), -1
    else:
        bufsize, usize = half, rng.choice([0, 1, 2, 3, 5, 8, half, 40])
    sc = Scenario(sid, groups, qcap=qcap, bufsize=bufsize, usize=usize, mutex=mutex, fill=fill, grain=grain, auto=auto)
    for gi in range(len(groups)):
        if rng.random() < 0.6:
            sc.group_names[gi] = rng.choice(["g%d" % gi, "g0", ""])
    if events and rng.random() < 0.25:
        # command descriptors that are not registered: usable with the trigger functions only (names may collide with the table's)
        for _ in range(rng.choice([1, 1, 2])):
            sc.xcmds.append(rand_cmd(rng, rng.choice(names + ["+X", "+EXT", "Q"])))
    tabc = sc.cmds()
    allc = sc.allcmds()
    nested_ok = not mutex
    for ci, c in enumerate(allc):
        for kind, has in (("w", c.hw), ("r", c.hr), ("x", c.hx), ("t", c.ht)):
            if not has:
                continue
            for _ in range(rng.choice([0, 1, 1, 2, 3])):
                rand_script(rng, sc, ci, kind, "c", holds, nested_ok)
            if events and kind in ("r", "t"):
                for _ in range(rng.choice([0, 1, 2])):
                    rand_script(rng, sc, ci, kind, "e", False, nested_ok)
        for vi, v in enumerate(c.vars):
            if v.vr and rng.random() < 0.5:
                for _ in range(rng.randint(1, 4)):
                    sc.vs(ci, vi, "r", ret=rng.choice([0, 0, 0, 1, -1]))
            if v.vw and rng.random() < 0.5:
                for _ in range(rng.randint(1, 4)):
                    sc.vs(ci, vi, "w", ret=rng.choice([0, 0, 0, 1, -1]))
    if mutex and rng.random() < 0.5:
        for _ in range(rng.randint(1, 3)):
            (sc.lock_fail if rng.random() < 0.5 else sc.unlock_fail)(rng.randint(1, 400), rng.choice([1, -1, 7]))
    if sched:
        sc.rds(rand_sched(rng))
        sc.wrs(rand_wsched(rng))
    for _ in range(lines):
        # stimuli before / while the line is processed
        if events and rng.random() < 0.5:
            for _ in range(rng.randint(1, qcap + 1)):
                sc.trig(rng.randrange(len(allc)), rng.choice("rt"), api=rng.choice(["trig", "trig", "trigr", "trigt"]))
        sc.feed(rand_line(rng, sc))
        if rng.random() < 0.3:
            sc.feed(rand_line(rng, sc))      # a second line already waiting in the input
        for _ in range(rng.randint(0, 3)):
            sc.svc(rng.randint(1, 25))
            r = rng.random()
            if events and r < 0.3:
                sc.trig(rng.randrange(len(allc)), rng.choice("rt"))
            elif holds and r < 0.5:
                sc.hexit(rng.choice([0, 0, -1, 1]))
            elif r < 0.6:
                sc.qbuf(rng.randrange(len(allc)), rng.choice("rtn"))
            elif r < 0.65:
                sc.qproc(rng.choice([0, 1]))
            elif r < 0.75:
                # the lookups by name (exact, case-sensitive)
                c = rng.choice(tabc)
                nm = c.name if rng.random() < 0.6 else rng.choice([c.name.swapcase(), c.name[:-1], c.name + "X", ""])
                k = rng.random()
                if k < 0.5:
                    sc.op("scmd %s" % hx(nm))
                elif k < 0.7:
                    sc.op("sgrp %s" % hx(rng.choice(["g0", "g1", "G0", "", "zz"])))
                else:
                    ci = rng.randrange(len(tabc))
                    sc.op("svar %d %s" % (ci, hx(rng.choice(["x", "val", "", "n1", "X", "nope"]))))
        sc.settle(700)
        if holds:
            # release a possible hold and finish
            sc.hexit(rng.choice([0, -1]))
            sc.settle(4000)
        if flags and rng.random() < 0.3:
            if rng.random() < 0.7:
                sc.flag_cmd(rng.randrange(len(tabc)), rng.choice(["disable", "disable", "only_test"]), rng.random() < 0.5)
            else:
                sc.flag_group(rng.randrange(len(sc.groups)), rng.random() < 0.5)
        if rng.random() < 0.2:
            ci = rng.randrange(len(allc))
            if allc[ci].vars:
                vi = rng.randrange(len(allc[ci].vars))
                v = allc[ci].vars[vi]
                sc.setmem(ci, vi, rand_mem(rng, v.type, v.size))
    return sc
