"""Mutation self-test (DESIGN.md 4.5): apply each patch of /verif/selftest to a scratch copy of the sources and
expect the named property's check to report a violation.  Patch file header lines '# expect: C01 C02' name the properties."""
import glob
import os
import re
import shutil
import subprocess
import sys
import time
from concurrent.futures import ThreadPoolExecutor

from catlib import VERIF, scratch_dir

EXPECT = {
    "revert-fix1.patch": ["C01", "C02"], "revert-fix2.patch": ["C04"], "revert-fix3.patch": ["C15"],
    "revert-fix4.patch": ["C18"], "revert-fix5.patch": ["C19"],
}


def expectations(path):
    base = os.path.basename(path)
    if base in EXPECT:
        return EXPECT[base]
    for line in open(path):
        m = re.match(r"#\s*expect:\s*(.*)", line)
        if m:
            return m.group(1).split()
    return []


def run_one(patch, pid, tier):
    d = scratch_dir("selftest-")
    try:
        shutil.copytree("/repo/src", os.path.join(d, "src"))
        p = subprocess.run(["patch", "-p1", "-s", "-d", d, "-i", patch], stdout=subprocess.PIPE, stderr=subprocess.STDOUT, text=True)
        if p.returncode != 0:
            return patch, pid, "PATCH-FAILED", p.stdout[-300:], 0
        env = dict(os.environ, VERIF_REPO=d, VERIF_SCRATCH=d, VERIF_CPUS="4")
        env["VERIF_EVID_DIR"] = os.path.join(d, "evidence")
        t = time.time()
        q = subprocess.run([os.path.join(VERIF, "check"), pid, "--tier", tier], stdout=subprocess.PIPE, stderr=subprocess.STDOUT, text=True, env=env)
        viol = [l for l in q.stdout.splitlines() if l.startswith("VIOLATION") or l.startswith("  reason")]
        status = "DETECTED" if q.returncode == 1 else ("MISSED" if q.returncode == 0 else "MACHINERY")
        return patch, pid, status, "\n".join(viol[:2]) if viol else q.stdout[-400:], time.time() - t
    finally:
        shutil.rmtree(d, ignore_errors=True)


def main(argv):
    tier = "quick"
    pats = sorted(glob.glob(os.path.join(VERIF, "selftest", "*.patch"))) + sorted(glob.glob(os.path.join(VERIF, "seeded", "*", "patch.diff")))
    if argv:
        pats = [p for p in pats if any(a in p for a in argv)]
    jobs = [(p, pid) for p in pats for pid in expectations(p)]
    rows = []
    with ThreadPoolExecutor(max_workers=4) as ex:
        for r in ex.map(lambda j: run_one(j[0], j[1], tier), jobs):
            rows.append(r)
            print("%-10s %-4s %-40s %5.1fs  %s" % (r[2], r[1], os.path.relpath(r[0], VERIF), r[4], r[3].replace("\n", " | ")[:200]))
    missed = [r for r in rows if r[2] != "DETECTED"]
    with open(os.path.join(VERIF, "selftest", "RESULTS.md"), "w") as f:
        f.write("# Self-test results (./check selftest)\n\n| patch | property | result | detail |\n|---|---|---|---|\n")
        for r in rows:
            f.write("| %s | %s | %s | %s |\n" % (os.path.relpath(r[0], VERIF), r[1], r[2], r[3].replace("\n", " ").replace("|", "/")[:160]))
    print("%d/%d detected" % (len(rows) - len(missed), len(rows)))
    return 0 if not missed else 1
