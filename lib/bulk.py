"""Run many scenarios on the real code and validate the recorded traces with TLC, in parallel batches."""
import os
import shutil
from concurrent.futures import ThreadPoolExecutor
from catlib import *


def run_batches(scenarios, exes, workdir, batch=40, module="CatTrace", keep=False, tlc_timeout=900, validate=True):
    """scenarios: list of Scenario.  Returns list of dicts, one per batch:
       {k, sids, scn, trace, rc, stderr, result}  (result = the trace spec's result file, or None)."""
    os.makedirs(workdir, exist_ok=True)
    byk = {}
    for s in scenarios:
        byk.setdefault(s.qcap, []).append(s)

    def weight(s):
        base = 5 + sum(40 if l.startswith("roundtrip") else 3 if l.startswith("settle") else 1 for l in s.lines)
        n = len(s.cmds())
        return base * (1 + n * n / 150.0)        # TLC's cost per service step grows with the table size

    total = sum(weight(s) for s in scenarios) or 1
    target = max(total / (2.0 * NCPU), 60)
    jobs = []
    for k, lst in byk.items():
        chunk, w, idx = [], 0, 0
        for s in lst + [None]:
            if s is None or (chunk and (w + weight(s) > target or len(chunk) >= batch)):
                base = os.path.join(workdir, "b%d_%d" % (k, idx))
                jobs.append({"k": k, "sids": [x.sid for x in chunk], "scn": base + ".scn", "trace": base + ".ndjson", "chunk": chunk})
                chunk, w, idx = [], 0, idx + 1
            if s is not None:
                chunk.append(s)
                w += weight(s)

    def work(j):
        write_scenarios(j["scn"], j["chunk"])
        chunk = j["chunk"]
        j["rc"], j["stderr"] = run_harness(exes[j["k"]], j["scn"], j["trace"])
        rc, part = j["rc"], 0
        while rc != 0:
            # the harness died (sanitizer report, signal): the Crash record ends that scenario; run the remaining ones separately
            last = None
            with open(j["trace"]) as f:
                for line in f:
                    if line.startswith('{"e":"cfg"'):
                        last = int(line.split('"sid":')[1].split(",")[0])
            ids = [s.sid for s in chunk]
            if last is None or last not in ids or ids.index(last) + 1 >= len(chunk):
                break
            chunk = chunk[ids.index(last) + 1:]
            part += 1
            scn2, tr2 = j["scn"] + ".p%d" % part, j["trace"] + ".p%d" % part
            write_scenarios(scn2, chunk)
            rc, err = run_harness(exes[j["k"]], scn2, tr2)
            with open(j["trace"], "a") as out, open(tr2) as src:
                shutil.copyfileobj(src, out)
            os.unlink(tr2)
            os.unlink(scn2)
        del j["chunk"]
        j["result"] = validate_trace(j["trace"], module, timeout=tlc_timeout) if validate else None
        if not keep:
            try:
                os.unlink(j["trace"])
            except OSError:
                pass
        return j

    with ThreadPoolExecutor(max_workers=NCPU) as ex:
        return list(ex.map(work, jobs))
