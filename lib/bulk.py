"""Run many scenarios on the real code and validate the recorded traces with TLC, in parallel batches."""
import os
import shutil
from concurrent.futures import ThreadPoolExecutor
from catlib import *


def run_batches(scenarios, exes, workdir, batch=40, module="CatTrace", keep=False, tlc_timeout=900, validate=True):
    """scenarios: list of Scenario.  Returns list of dicts, one per batch:
       {k, sids, scn, trace, rc, stderr, result}  (result = the trace spec's result file, or None)."""
    os.makedirs(workdir, exist_ok=True)
    byk = {}
    for s in scenarios:
        byk.setdefault(s.qcap, []).append(s)
    jobs = []
    for k, lst in byk.items():
        for i in range(0, len(lst), batch):
            chunk = lst[i:i + batch]
            base = os.path.join(workdir, "b%d_%d" % (k, i // batch))
            jobs.append({"k": k, "sids": [s.sid for s in chunk], "scn": base + ".scn", "trace": base + ".ndjson", "chunk": chunk})

    def work(j):
        write_scenarios(j["scn"], j["chunk"])
        del j["chunk"]
        j["rc"], j["stderr"] = run_harness(exes[j["k"]], j["scn"], j["trace"])
        j["result"] = validate_trace(j["trace"], module, timeout=tlc_timeout) if validate else None
        if not keep:
            try:
                os.unlink(j["trace"])
            except OSError:
                pass
        return j

    with ThreadPoolExecutor(max_workers=NCPU) as ex:
        return list(ex.map(work, jobs))
