"""Shared machinery of the cAT checks: harness build, scenario text, harness runs, TLC runs.

Standard library only.  See DESIGN.md section 4 and harness/FORMAT.md.
"""
import json
import os
import shutil
import subprocess
import sys
import tempfile
import time
from concurrent.futures import ThreadPoolExecutor

VERIF = os.path.dirname(os.path.dirname(os.path.abspath(__file__)))
REPO = os.environ.get("VERIF_REPO", "/repo")
SPEC = os.path.join(VERIF, "spec")
HARNESS_SRC = os.path.join(VERIF, "harness", "catdrv.c")
NCPU = int(os.environ.get("VERIF_CPUS", str(os.cpu_count() or 4)))

# enum values of cat.h
INT, UINT, HEX, BUFHEX, STRING = 0, 1, 2, 3, 4
RW, RO, WO = 0, 1, 2
R_ERROR, R_DATA_OK, R_DATA_NEXT, R_NEXT, R_OK, R_HOLD, R_HOLD_EXIT_OK, R_HOLD_EXIT_ERROR, R_LIST = -1, 0, 1, 2, 3, 4, 5, 6, 7
T_READ, T_TEST = 1, 3


class MachineryError(Exception):
    """The checking machinery itself failed (exit 2, never a verdict)."""


def hx(b):
    if isinstance(b, str):
        b = b.encode("latin-1")
    return b.hex() if len(b) else "-"


def scratch_dir(prefix="catv-"):
    base = os.environ.get("VERIF_SCRATCH") or os.environ.get("TMPDIR") or "/var/tmp"
    os.makedirs(base, exist_ok=True)
    return tempfile.mkdtemp(prefix=prefix, dir=base)


# --------------------------------------------------------------------------- harness build

def build_harness(outdir, ks=(1, 2, 3, 8), sanitize=True, extra=(), noproj=False, tag=""):
    """Compile harness + $REPO/src/cat.c into one binary per ring capacity k. Returns {k: path}."""
    os.makedirs(outdir, exist_ok=True)
    src = os.path.join(REPO, "src", "cat.c")
    if not os.path.exists(src):
        raise MachineryError("no %s" % src)

    def one(k):
        exe = os.path.join(outdir, "catdrv%s_%d" % (tag, k))
        cmd = ["clang", "-O1", "-g", "-fno-omit-frame-pointer", "-DCAT_VERIF",
               "-DCAT_UNSOLICITED_CMD_BUFFER_SIZE=((size_t)(%d))" % k,
               "-I", os.path.join(REPO, "src"), HARNESS_SRC, src, "-o", exe]
        if sanitize:
            cmd[1:1] = ["-fsanitize=address,undefined", "-fno-sanitize-recover=all"]
        if noproj:
            cmd[1:1] = ["-DNO_PROJ"]
        cmd[1:1] = list(extra)
        p = subprocess.run(cmd, stdout=subprocess.PIPE, stderr=subprocess.STDOUT, text=True, timeout=600)
        return k, exe, p.returncode, p.stdout

    out = {}
    with ThreadPoolExecutor(max_workers=min(len(ks), NCPU)) as ex:
        for k, exe, rc, log in ex.map(one, ks):
            if rc != 0:
                if not noproj:
                    # the harness reads the public struct for the step-grain projection: when that does not compile (the struct was
                    # refactored) fall back to the observable grain (DESIGN 4.1); a second failure is a real build problem
                    return build_harness(outdir, ks, sanitize, extra, True, tag)
                raise MachineryError("harness build failed for k=%d:\n%s" % (k, log[-4000:]))
            out[k] = exe
    out["noproj"] = noproj
    return out


# --------------------------------------------------------------------------- scenarios

class Var:
    def __init__(self, type=UINT, size=1, acc=RW, name=None, vr=False, vw=False, mem=None):
        self.type, self.size, self.acc, self.name, self.vr, self.vw = type, size, acc, name, vr, vw
        self.mem = mem if mem is not None else bytes(size)
        assert len(self.mem) == size, (self.mem, size)


class Cmd:
    def __init__(self, name, desc=None, hw=False, hr=False, hx=False, ht=False, need_all=False, only_test=False,
                 disable=False, implicit=False, vars=()):
        self.name, self.desc = name, desc
        self.hw, self.hr, self.hx, self.ht = hw, hr, hx, ht
        self.need_all, self.only_test, self.disable, self.implicit = need_all, only_test, disable, implicit
        self.vars = list(vars)


def _opt(s):
    if s is None:
        return "-"
    if len(s) == 0:
        return "E"
    return hx(s)


class Scenario:
    """Builder for one scenario of harness/FORMAT.md."""

    def __init__(self, sid, groups, qcap=1, bufsize=64, usize=-1, mutex=False, fill=0, grain="step", auto="", hdef=None,
                 meta=None):
        # groups: list of (disable, [Cmd...])  or a flat list of Cmd (one enabled group)
        if groups and isinstance(groups[0], Cmd):
            groups = [(False, list(groups))]
        self.sid, self.groups, self.qcap, self.bufsize, self.usize = sid, groups, qcap, bufsize, usize
        self.mutex, self.fill, self.grain, self.auto, self.hdef = mutex, fill, grain, auto, hdef
        self.lines = []
        self.meta = meta or {}
        self.group_names = {}
        self.xcmds = []          # command descriptors that are not registered in any group (indices continue after the table)

    # ---- sizes as the library computes them
    @property
    def acap(self):
        return self.bufsize if self.usize >= 0 else self.bufsize >> 1

    @property
    def ucap(self):
        return self.usize if self.usize >= 0 else self.bufsize >> 1

    def cmds(self):
        return [c for _, g in self.groups for c in g]

    def allcmds(self):
        """registered commands followed by the unregistered descriptors (index space of the harness)"""
        return self.cmds() + list(self.xcmds)

    # ---- scripts
    def hs(self, c, kind, fsm="c", ret=None, data=None, size=None, act=None):
        s = "hs %d %s %s" % (c, kind, fsm)
        if ret is not None:
            s += " ret=%d" % ret
        if data is not None:
            s += " data=%s" % hx(data)
        if size is not None:
            s += " size=%d" % size
        if act:
            s += " act=%s" % act
        self.lines.append(s)
        return self

    def vs(self, c, v, rw, ret=0, act=None):
        s = "vs %d %d %s ret=%d" % (c, v, rw, ret)
        if act:
            s += " act=%s" % act
        self.lines.append(s)
        return self

    def lock_fail(self, k, ret=1):
        self.lines.append("ls %d %d" % (k, ret))
        return self

    def unlock_fail(self, k, ret=1):
        self.lines.append("us %d %d" % (k, ret))
        return self

    # ---- ops
    def feed(self, b):
        if isinstance(b, str):
            b = b.encode("latin-1")
        if b:
            self.lines.append("feed %s" % b.hex())
        return self

    def rds(self, bits):
        if bits:
            self.lines.append("rds %s" % bits)
        return self

    def wrs(self, pat):
        if pat:
            self.lines.append("wrs %s" % pat)
        return self

    def svc(self, n=1):
        self.lines.append("svc %d" % n)
        return self

    def settle(self, maxcalls=20000):
        self.lines.append("settle %d" % maxcalls)
        return self

    def trig(self, c, t="r", api="trig"):
        self.lines.append("%s %d %s" % (api, c, t) if api == "trig" else "%s %d" % (api, c))
        return self

    def hexit(self, status):
        self.lines.append("hexit %d" % status)
        return self

    def q(self, what):
        self.lines.append("q %s" % what)
        return self

    def qbuf(self, c, t):
        self.lines.append("qbuf %d %s" % (c, t))
        return self

    def qproc(self, fsm):
        self.lines.append("qproc %d" % fsm)
        return self

    def setmem(self, c, v, b):
        self.lines.append("setmem %d %d %s" % (c, v, hx(b)))
        return self

    def flag_cmd(self, c, which, val):
        self.lines.append("flag cmd %d %s %d" % (c, which, 1 if val else 0))
        return self

    def flag_group(self, g, val):
        self.lines.append("flag group %d %d" % (g, 1 if val else 0))
        return self

    def note(self, t):
        self.lines.append("note %s" % t)
        return self

    def op(self, line):
        self.lines.append(line)
        return self

    def text(self):
        o = ["scenario %d" % self.sid, "qcap %d" % self.qcap,
             "buf %d %d" % (self.bufsize, self.usize) if self.usize >= 0 else "buf %d" % self.bufsize,
             "mutex %d" % (1 if self.mutex else 0), "fill %d" % self.fill, "grain %s" % self.grain]
        if self.auto:
            o.append("auto %s" % self.auto)
        if self.hdef:
            o.append("hdef %d %d %d %d" % tuple(self.hdef))
        for gi, (dis, cmds) in enumerate(self.groups):
            gn = self.group_names.get(gi)
            o.append("group %d%s" % (1 if dis else 0, "" if gn is None else " " + _opt(gn)))
            for c in cmds:
                o.append("cmd %s %s %d %d %d %d %d %d %d %d" % (
                    hx(c.name), _opt(c.desc), c.hw, c.hr, c.hx, c.ht, c.need_all, c.only_test, c.disable, c.implicit))
                for v in c.vars:
                    o.append("var %d %d %d %s %d %d %s" % (v.type, v.size, v.acc, _opt(v.name), v.vr, v.vw, hx(v.mem)))
        for c in self.xcmds:
            o.append("xcmd %s %s %d %d %d %d %d %d %d %d" % (
                hx(c.name), _opt(c.desc), c.hw, c.hr, c.hx, c.ht, c.need_all, c.only_test, c.disable, c.implicit))
            for v in c.vars:
                o.append("var %d %d %d %s %d %d %s" % (v.type, v.size, v.acc, _opt(v.name), v.vr, v.vw, hx(v.mem)))
        o.append("end_cfg")
        o.extend(self.lines)
        return "\n".join(o) + "\n"


class RawScenario:
    """A stored scenario file (scenarios/*.scn: executions that once exposed a fault of the machinery) with a new scenario number."""

    def __init__(self, sid, path):
        import re as _re
        txt = open(path).read()
        self.sid = sid
        self._text = _re.sub(r"^scenario \d+", "scenario %d" % sid, txt, count=1, flags=_re.M)
        m = _re.search(r"^qcap (\d+)", txt, _re.M)
        self.qcap = int(m.group(1)) if m else 1
        self.lines = [l for l in txt.splitlines() if l and not l.startswith(("cmd ", "var ", "group ", "xcmd "))]
        self._ncmds = sum(1 for l in txt.splitlines() if l.startswith(("cmd ", "xcmd ")))
        self.meta = {"family": "regress", "sig": ("regress", os.path.basename(path))}
        self.xcmds = []

    def cmds(self):
        return [None] * self._ncmds

    def text(self):
        return self._text


def fam_regress(prefix):
    """stored scenarios scenarios/<prefix>*.scn (n is ignored)"""
    def g(rng, sid0, n):
        import glob as _glob
        return [RawScenario(sid0 + i, p) for i, p in enumerate(sorted(_glob.glob(os.path.join(VERIF, "scenarios", prefix + "*.scn"))))]
    return g


def write_scenarios(path, scenarios):
    with open(path, "w") as f:
        for s in scenarios:
            f.write(s.text())


# --------------------------------------------------------------------------- running

def run_harness(exe, scenario_file, trace_file, timeout=600):
    env = dict(os.environ)
    env["ASAN_OPTIONS"] = "detect_leaks=0:abort_on_error=0:allocator_may_return_null=1"
    env["UBSAN_OPTIONS"] = "print_stacktrace=1:abort_on_error=1"
    env["CATDRV_TIMEOUT"] = str(timeout)
    p = subprocess.run([exe, trace_file, scenario_file], stdout=subprocess.PIPE, stderr=subprocess.PIPE, text=True,
                       timeout=timeout + 30, env=env)
    if p.returncode in (2, 3):
        raise MachineryError("harness rejected %s: %s" % (scenario_file, p.stderr[-2000:]))
    return p.returncode, p.stderr


def read_trace(path):
    with open(path) as f:
        return [json.loads(l) for l in f if l.strip()]


def split_scenarios(records):
    cur = None
    for r in records:
        if r["e"] == "cfg":
            cur = [r]
        elif cur is not None:
            cur.append(r)
            if r["e"] == "end":
                yield cur
                cur = None
    if cur:
        yield cur


def output_bytes(records):
    """Accepted output bytes of a scenario's records, in order."""
    out = bytearray()

    def walk(evs):
        for e in evs:
            if e["k"] == "wr" and e["ok"]:
                out.append(e["b"])
            for sub in e.get("in", []):
                if sub.get("k") == "api":
                    walk(sub.get("ev", []))
    for r in records:
        if r["e"] == "api":
            walk(r["ev"])
    return bytes(out)


# --------------------------------------------------------------------------- TLC

def tlc(module, cfg=None, workers=1, env=None, timeout=900, heap="4g", extra=(), metadir=None, cwd=None):
    """Run TLC on spec/<module>.tla. Returns (rc, stdout). rc semantics are TLC's (0 ok, 12/13 violation ...)."""
    own = metadir is None
    metadir = metadir or scratch_dir("tlcmd-")
    e = dict(os.environ)
    e["JAVA_TOOL_OPTIONS"] = "-Xmx%s -Xss512m -XX:+UseParallelGC" % heap
    if env:
        e.update(env)
    cmd = ["timeout", str(timeout), "tlc", "-noGenerateSpecTE", "-workers", str(workers), "-metadir", metadir,
           "-config", os.path.join(SPEC, (cfg or module) + ".cfg")] + list(extra) + [os.path.join(SPEC, module + ".tla")]
    try:
        p = subprocess.run(cmd, stdout=subprocess.PIPE, stderr=subprocess.STDOUT, text=True, env=e, cwd=cwd or SPEC)
    finally:
        if own:
            shutil.rmtree(metadir, ignore_errors=True)
    return p.returncode, p.stdout


def tlc_stats(out):
    """(generated, distinct) from TLC's final statistics line."""
    import re
    m = re.findall(r"(\d+) states generated, (\d+) distinct states found", out)
    if not m:
        return 0, 0
    return int(m[-1][0]), int(m[-1][1])


def validate_trace(trace_file, module="CatTrace", timeout=900, heap="4g", env_extra=None):
    """Run a trace specification over one ndjson trace; returns the result dict it wrote."""
    d = scratch_dir("tlctr-")
    try:
        resf = os.path.join(d, "result.json")
        env = {"CAT_TRACE": trace_file, "CAT_RESULT": resf}
        if env_extra:
            env.update(env_extra)
        rc, out = tlc(module, workers=1, env=env, timeout=timeout, heap=heap,
                      metadir=os.path.join(d, "md"))
        if rc != 0 or not os.path.exists(resf):
            raise MachineryError("TLC trace validation failed (rc=%s) for %s:\n%s" % (rc, trace_file, out[-3000:]))
        with open(resf) as f:
            res = json.load(f)
        res["_tlc_states"] = tlc_stats(out)
        return res
    finally:
        shutil.rmtree(d, ignore_errors=True)
