#!/usr/bin/env python3
"""Regenerate /verif/MANIFEST.json from the registry (lib/props.py CLAIMS)."""
import json, os, sys
sys.path.insert(0, os.path.dirname(os.path.abspath(__file__)))
import props

VERIF = os.path.dirname(os.path.dirname(os.path.abspath(__file__)))
allp = [json.loads(l) for l in open(os.path.join(VERIF, "properties.jsonl"))]
checks, na = [], []
for p in allp:
    pid = p["id"]
    c = props.CLAIMS.get(pid)
    if not c:
        na.append({"property_id": pid, "reason": props.NOT_YET.get(pid, "check not built yet (construction order in DESIGN.md section 11)")})
        continue
    checks.append({
        "property_id": pid,
        "quick_cmd": "./check %s --tier quick" % pid,
        "thorough_cmd": "./check %s --tier thorough" % pid,
        "evidence_file": "/verif/evidence/%s.json" % pid,
        "replay_cmd_template": "./check replay %s {path}" % pid,
        "engine": "tlc-catspec",
        "level_claimed": {"category": "model_checking", "text": c["text"], "design_ref": "DESIGN.md section 6 (%s), sections 3-4" % pid},
        "level_note": c["note"],
        "technique": c["technique"],
    })
m = {
    "version": 1,
    "setup_cmd": "./setup.sh",
    "hooks": {"guard": "CAT_VERIF", "enable": "harness compile line: clang -DCAT_VERIF ... harness/catdrv.c $REPO/src/cat.c (see lib/catlib.py build_harness)",
              "baseline_off_cmd": "d=$(mktemp -d /var/tmp/catbase-XXXXXX) && cmake -G Ninja -S /repo -B $d >/dev/null && cmake --build $d >/dev/null && ctest --test-dir $d -j8 --timeout 900; rc=$?; rm -rf $d; exit $rc",
              "source_commits": props.HOOK_COMMITS, "add_only": True},
    "engines": [{"name": "tlc-catspec", "path": "/verif/spec", "serves_properties": [c["property_id"] for c in checks],
                 "kind_free_text": "explicit TLA+ specification (CatImpl: both state machines of cat.c; CatOracle: declarative line meaning; CatMon: property monitors) "
                                   "checked with TLC, bound to the C code by trace validation of recorded executions (harness/catdrv.c -> ndjson -> spec/CatTrace.tla)"}],
    "checks": checks,
    "notes": "Every check rebuilds the harness from /repo/src (VERIF_REPO overrides), runs the model-checking configurations of the property, executes seeded scenario families (random, enumerated, TLC simulation behaviours, complete edge covers) and the repository's own test programs "
             "(recorded through harness/catrec.c) on the real code (ASan+UBSan build) and validates every recorded API call with TLC against CatImpl (step grain) and the CatMon monitors (observable grain). "
             "Verdicts come from the monitors only; CatImpl mismatches without a monitor hit are recorded as impl_conformance=drift in the evidence. "
             "Exit 2 = machinery failure. known_findings.txt lists the five defects of the pinned tree, all repaired by fix: commits in /repo.",
    "not_applicable": na,
}
json.dump(m, open(os.path.join(VERIF, "MANIFEST.json"), "w"), indent=1)
print("claimed", [c["property_id"] for c in checks])
