"""Direction 2, exhaustive variant: every transition of a (small) CatSys state graph is replayed on the real code.

TLC explores the configuration with `ACTION_CONSTRAINT EdgeExport` / `VIEW EdgeView` (spec/EDGE_*.cfg) and prints every transition
it generates (source id, target id, the API record of the step, the configuration).  The graph is turned into walks from the
initial states that together traverse every edge at least once; each walk becomes a scenario (lib/simreplay.to_scenario), runs on
the real code and is validated by CatTrace like any other recording: step-grain conformance means the code took the same
transition, call by call."""
import collections
import hashlib
import json
import os
import re
import shutil
import subprocess

from catlib import *
import simreplay

EDGE_RE = re.compile(r'^<<"EDGE", "(.*)", "(.*)", "(.*)", "(.*)", (\d+)>>$')


def _unq(s):
    return s.replace('\\"', '"').replace("\\\\", "\\")


def _canon(x):
    """Order-insensitive form: TLC serialises a set in whatever order its elements happen to be stored, so equal states can print differently."""
    if isinstance(x, list):
        return sorted((_canon(e) for e in x), key=lambda e: json.dumps(e, sort_keys=True))
    if isinstance(x, dict):
        return {k: _canon(v) for k, v in x.items()}
    return x


def _sid(txt):
    return hashlib.md5(json.dumps(_canon(json.loads(_unq(txt))), sort_keys=True).encode()).digest()


def export_graph(module, cfg, workdir, timeout=3000, heap="8g"):
    """Returns (edges, inits, cfgs): edges[src] = list of (dst, rec_index); recs = list of json strings; inits = {state: cfgkey}."""
    md = os.path.join(workdir, "md-edge-" + cfg)
    env = dict(os.environ)
    env["JAVA_TOOL_OPTIONS"] = "-Xmx%s -Xss512m -XX:+UseParallelGC" % heap
    cmd = ["timeout", str(timeout), "tlc", "-noGenerateSpecTE", "-workers", "1", "-metadir", md, "-config", cfg + ".cfg", module + ".tla"]
    p = subprocess.Popen(cmd, cwd=SPEC, env=env, stdout=subprocess.PIPE, stderr=subprocess.STDOUT, text=True, errors="replace")
    edges = collections.defaultdict(list)
    recs, recidx, cfgs, inits = [], {}, {}, {}
    tail = collections.deque(maxlen=40)
    nedges = 0
    seen = set()
    idcache = {}
    for line in p.stdout:
        if not line.startswith('<<"EDGE"'):
            tail.append(line)
            continue
        m = EDGE_RE.match(line.rstrip("\n"))
        if not m:
            continue
        src = idcache.get(m.group(1)) or idcache.setdefault(m.group(1), _sid(m.group(1)))
        dst = idcache.get(m.group(2)) or idcache.setdefault(m.group(2), _sid(m.group(2)))
        rj = m.group(3)
        ck = hashlib.md5(m.group(4).encode()).digest()
        if ck not in cfgs:
            cfgs[ck] = json.loads(_unq(m.group(4)))
        key = (src, dst, rj)
        if key in seen:
            continue
        seen.add(key)
        if rj not in recidx:
            recidx[rj] = len(recs)
            recs.append(rj)
        edges[src].append((dst, recidx[rj]))
        nedges += 1
        if int(m.group(5)) == 1:
            inits[src] = ck
    p.wait()
    out = "".join(tail)
    shutil.rmtree(md, ignore_errors=True)
    if p.returncode != 0 or "Model checking completed. No error has been found" not in out:
        raise MachineryError("edge export of %s failed (rc=%s):\n%s" % (cfg, p.returncode, out[-2000:]))
    st = re.findall(r"(\d+) states generated, (\d+) distinct states found", out)
    return {"edges": edges, "recs": recs, "inits": inits, "cfgs": cfgs, "nedges": nedges,
            "generated": int(st[-1][0]) if st else 0, "distinct": int(st[-1][1]) if st else 0}


def cover_walks(g, maxlen=160):
    """Walks (lists of record indices) from initial states that traverse every edge of g at least once."""
    edges = g["edges"]
    uncovered = {s: set(range(len(l))) for s, l in edges.items()}
    total = sum(len(l) for l in edges.values())
    walks = []
    # configuration of every state = that of the initial state it is reachable from (the model never changes cfg except flags, which are in the id)
    while total > 0:
        progressed = False
        for init, ck in g["inits"].items():
            # breadth-first search from init for the nearest state with an uncovered outgoing edge, then keep walking greedily
            walk, cur = [], init
            while len(walk) < maxlen:
                if uncovered.get(cur):
                    k = min(uncovered[cur])
                    uncovered[cur].discard(k)
                    total -= 1
                    dst, ri = edges[cur][k]
                    walk.append(ri)
                    cur = dst
                    progressed = True
                    continue
                # BFS over covered edges to the nearest state that still has something to do
                prev = {cur: None}
                dq = collections.deque([cur])
                target = None
                while dq:
                    u = dq.popleft()
                    if uncovered.get(u) and u != cur:
                        target = u
                        break
                    for (v, ri) in edges.get(u, ()):
                        if v not in prev:
                            prev[v] = (u, ri)
                            dq.append(v)
                if target is None:
                    break
                path = []
                u = target
                while prev[u] is not None:
                    pu, ri = prev[u]
                    path.append(ri)
                    u = pu
                path.reverse()
                if len(walk) + len(path) >= maxlen and walk:
                    break
                walk.extend(path)
                cur = target
            if walk:
                walks.append((ck, walk))
        if not progressed:
            break
    return walks, total


def scenarios(module, cfg, sid0, workdir, maxlen=160):
    g = export_graph(module, cfg, workdir)
    walks, left = cover_walks(g, maxlen)
    out = []
    for ck, w in walks:
        b = {"cfg": g["cfgs"][ck], "recs": [json.loads(_unq(g["recs"][ri])) for ri in w]}
        s = simreplay.to_scenario(sid0 + len(out), b, {"family": "edge_" + cfg})
        if s is not None:
            s.meta["sig"] = ("edge", cfg, len(out))
            out.append(s)
    info = {"config": cfg, "states": g["distinct"], "transitions": g["nedges"], "walks": len(walks), "uncovered": left,
            "records": sum(len(w) for _, w in walks)}
    return out, info


def fam_edge(module, cfg, maxlen=160):
    """Scenario family: n is ignored - the family is the complete cover."""
    def gen_(rng, sid0, n):
        d = scratch_dir("edge-")
        try:
            scs, info = scenarios(module, cfg, sid0, d, maxlen)
        finally:
            shutil.rmtree(d, ignore_errors=True)
        if info["uncovered"]:
            raise MachineryError("edge cover of %s left %d transitions uncovered" % (cfg, info["uncovered"]))
        for s in scs:
            s.meta["edge_info"] = info
        return scs
    return gen_


if __name__ == "__main__":
    import sys
    import bulk
    module, cfg = sys.argv[1], sys.argv[2]
    w = scratch_dir("edgecover-")
    try:
        scs, info = scenarios(module, cfg, 1, w)
        print(info)
        exes = build_harness(os.path.join(w, "bin"))
        exes.pop("noproj", None)
        res = bulk.run_batches(scs, exes, os.path.join(w, "w"), keep=False)
        tot = collections.Counter()
        for j in res:
            r = j["result"]
            tot["steps"] += r["impl"]["steps"]; tot["skipped"] += r["impl"]["skipped"]; tot["drift"] += len(r["impl"]["drift"]); tot["bad"] += len(r["mon"]["bad"])
            for d in r["impl"]["drift"][:1]:
                print("DRIFT", json.dumps(d)[:500])
            for b in r["mon"]["bad"][:1]:
                print("BAD", json.dumps(b)[:300])
        print(dict(tot))
    finally:
        shutil.rmtree(w, ignore_errors=True)
