"""check driver: model checking stage, scenario families on the real code, trace validation, verdict, evidence."""
import json
import os
import random
import re
import shutil
import sys
import time
import traceback

from catlib import *
import bulk
import props
import repotests

EVID = os.environ.get("VERIF_EVID_DIR") or os.path.join(VERIF, "evidence")
REPLAYS = os.path.join(os.path.dirname(os.environ["VERIF_EVID_DIR"]), "replays") if os.environ.get("VERIF_EVID_DIR") else os.path.join(VERIF, "replays")
KNOWN = os.environ.get("VERIF_KNOWN") or os.path.join(VERIF, "known_findings.txt")


def load_known():
    out = []
    if os.path.exists(KNOWN):
        for line in open(KNOWN):
            m = re.match(r"finding:\s+property=(\S+)\s+fp=(\S+)\s+(.*)", line.strip())
            if m:
                out.append({"p": m.group(1), "fp": m.group(2), "text": m.group(3)})
    return out


def why_text(why):
    if isinstance(why, list):
        return " ".join(why_text(x) for x in why)
    return str(why)


def fingerprint(bad):
    """Stable name of what failed: the first textual element of the monitor's reason."""
    w = bad.get("why")
    head = w[0] if isinstance(w, list) and w else w
    return re.sub(r"[^A-Za-z0-9]+", "-", str(head)).strip("-").lower()[:60]


def extract_scenario(scn_file, sid):
    out, on = [], False
    for line in open(scn_file):
        if line.startswith("scenario "):
            on = line.split()[1] == str(sid)
        if on:
            out.append(line)
    return "".join(out)


def conf_projection(recs):
    """What C12 says must not depend on the schedule: the accepted output bytes and the handler invocations with their arguments."""
    calls = []

    def walk(evs):
        for e in evs:
            if e["k"] == "cmd":
                calls.append(("cmd", e["kind"], e["c"], e["fsm"], tuple(e["data"]), e["size"], e["aux"], e["ret"]))
            elif e["k"] == "vw":
                calls.append(("vw", e["c"], e["v"], e["ws"], e["r"]))
            elif e["k"] == "vr":
                calls.append(("vr", e["c"], e["v"], e["r"]))
    for r in recs:
        if r["e"] == "api":
            walk(r["ev"])
    return output_bytes(recs), calls


def conf_compare(trace_files):
    """Twin scenarios (same conf key, different readiness schedules, no events in play) must agree literally. Returns synthetic bad records."""
    groups = {}
    for tf in trace_files:
        for recs in split_scenarios(read_trace(tf)):
            tag = [r["t"] for r in recs if r["e"] == "env" and r.get("f") == "note" and str(r.get("t", "")).startswith("conf_")]
            if not tag:
                continue
            _, key, variant = tag[0].split("_")
            groups.setdefault(key, {})[int(variant)] = (recs[0]["sid"], tf, conf_projection(recs))
    out = []
    for key, vs in groups.items():
        if 0 not in vs:
            continue
        ref_sid, ref_tf, ref = vs[0]
        for v, (sid, tf, proj) in vs.items():
            if v == 0 or proj == ref:
                continue
            what = "output bytes" if proj[0] != ref[0] else "handler invocations"
            detail = [list(proj[0][:80]), list(ref[0][:80])] if proj[0] != ref[0] else [str(proj[1][:6]), str(ref[1][:6])]
            out.append({"p": "C12", "why": ["differs from the eager schedule of the same input in its " + what, detail], "sid": sid, "ref_sid": ref_sid,
                        "at": 0, "trace": tf, "ref_trace": ref_tf, "conf_key": key})
    return out


def hist_projection(recs):
    """Result codes with their newline style, and command-machine handler invocations, in order."""
    toks = []
    out = output_bytes(recs)
    for raw in out.split(b"\n"):
        crlf = raw.endswith(b"\r")
        body = raw.rstrip(b"\r").lstrip(b"\r")
        if body in (b"OK", b"ERROR"):
            toks.append(("code", body.decode(), crlf))
    calls = []
    for r in recs:
        if r["e"] == "api":
            for e in r["ev"]:
                if e["k"] == "cmd" and e["fsm"] == "cmd":
                    calls.append((e["kind"], e["c"]))
    return toks, calls


def hist_compare(trace_files):
    groups = {}
    for tf in trace_files:
        for recs in split_scenarios(read_trace(tf)):
            tag = [r["t"] for r in recs if r["e"] == "env" and r.get("f") == "note" and str(r.get("t", "")).startswith("hist_")]
            if not tag:
                continue
            _, key, variant = tag[0].split("_")
            groups.setdefault(key, {})[int(variant)] = (recs[0]["sid"], tf, hist_projection(recs))
    out = []
    for key, vs in groups.items():
        if 0 not in vs or len(vs) < 2 or sorted(vs) != list(range(len(vs))):
            continue
        sid, tf, seq = vs[0]
        toks, calls = [], []
        for i in range(1, len(vs)):
            toks += vs[i][2][0]
            calls += vs[i][2][1]
        if (toks, calls) != seq:
            out.append({"p": "C20", "why": ["the answer to a sequence of lines differs from the answers to its lines fed alone", [str(seq)[:300], str((toks, calls))[:300]]],
                        "sid": sid, "at": 0, "trace": tf, "hist_key": key, "members": [(vs[i][0], vs[i][1]) for i in range(1, len(vs))]})
    return out


def has_tag(bad, pid):
    return pid in str(bad.get("p", "")).split(",")


def run_scenario_file(exes, scn_path, workdir, impl=True):
    """Run one scenario file (all scenarios must use the same qcap) and validate it. Returns the result dict."""
    text = open(scn_path).read()
    m = re.search(r"^qcap (\d+)", text, re.M)
    k = int(m.group(1)) if m else 1
    if k not in exes:
        raise MachineryError("no harness binary for qcap %d" % k)
    tr = os.path.join(workdir, "replay.ndjson")
    rc, err = run_harness(exes[k], scn_path, tr)
    res = validate_trace(tr, "CatTrace", env_extra=None if impl else {"CAT_IMPL": "0"})
    res["_rc"] = rc
    res["_stderr"] = err[-2000:]
    return res


def twin_verdict(res, eager_sid):
    """C12, verdict level: the eager twin is free of contradictions, another schedule of the same scenario is not."""
    sids = {b["sid"] for b in res["mon"]["bad"]}
    return bool(sids) and eager_sid not in sids


def confirm(exes, scn_text, pid, workdir, eager_sid=None):
    """A violation is reported only if the scenario alone reproduces it (twice)."""
    p = os.path.join(workdir, "confirm.scn")
    open(p, "w").write(scn_text)
    n = 0
    for _ in range(2):
        res = run_scenario_file(exes, p, workdir)
        if any(has_tag(b, pid) for b in res["mon"]["bad"]) or (pid in ("C12", "C08") and conf_compare([os.path.join(workdir, "replay.ndjson")])) \
                or (pid == "C20" and hist_compare([os.path.join(workdir, "replay.ndjson")])) \
                or (pid == "C12" and eager_sid is not None and twin_verdict(res, eager_sid)):
            n += 1
    return n == 2


def check_property(pid, tier, seed):
    t0 = time.time()
    spec = props.PROPS[pid]
    known = load_known()
    work = scratch_dir("check-%s-" % pid)
    lines_out = []
    try:
        exes = build_harness(os.path.join(work, "bin"))
        noproj = exes.pop("noproj", False)
        # ---- stage 1: the specification itself (model checking); a failure here is a machinery failure
        mc_runs = []
        for mc in spec.get("mc", []):
            if tier == "quick" and not mc.get("quick", True):
                continue
            r = props.run_mc(mc, tier, work)
            mc_runs.append(r)
            if not r["ok"]:
                raise MachineryError("model checking stage %s failed:\n%s" % (mc["name"], r["tail"]))
        # ---- stage 2: scenarios on the real code, validated by TLC (CatTrace: CatImpl conformance + CatMon monitors)
        rng = random.Random(seed * 1000003 + int(pid[1:]))
        scenarios = []
        fam_counts = {}
        sid = 1
        for fam in spec["families"]:
            n = fam["quick"] if tier == "quick" else fam["thorough"]
            lst = fam["gen"](rng, sid, n)
            for s in lst:
                s.meta.setdefault("family", fam["name"])
            fam_counts[fam["name"]] = len(lst)
            sid += len(lst)
            scenarios.extend(lst)
        meta = {s.sid: s.meta for s in scenarios}
        # the repository's own test programs, recorded through harness/catrec.c, are validated by the same trace specification (in parallel)
        import threading
        rt_box = {}

        def rt_work():
            try:
                rt_box["r"] = repotests.stage(pid, tier, work)
            except Exception as e:      # a machinery failure of this stage is reported after the main stage
                rt_box["e"] = e
        rt_thread = threading.Thread(target=rt_work)
        rt_thread.start()
        batches = bulk.run_batches(scenarios, exes, os.path.join(work, "w"), batch=spec.get("batch", 25), module="CatTrace", keep=True)
        rt_thread.join()
        if "e" in rt_box:
            raise MachineryError("repository-test stage failed: %s" % rt_box["e"])
        rt = rt_box["r"]
        agg = {"steps": 0, "skipped": 0, "scenarios": 0, "txns": 0, "units": 0, "evs": 0, "uncl": 0, "lostend": 0}
        drift, bads, crashes = [], [], 0
        tlc_states = tlc_trans = 0
        for j in batches:
            r = j["result"]
            for k in ("steps", "skipped", "scenarios"):
                agg[k] += r["impl"][k]
            for k in ("txns", "units", "evs", "uncl", "lostend"):
                agg[k] += r["mon"][k]
            tlc_trans += r["_tlc_states"][0]
            tlc_states += r["_tlc_states"][1]
            if j["rc"] != 0:
                crashes += 1
            for d in r["impl"]["drift"]:
                d["scn"] = j["scn"]
                drift.append(d)
            for b in r["mon"]["bad"]:
                b["scn"] = j["scn"]
                bads.append(b)
        rt_steps = rt_scen = 0
        for r in rt["results"]:
            rt_steps += r["impl"]["steps"]
            rt_scen += r["impl"]["scenarios"]
            for k in ("txns", "units", "evs", "uncl", "lostend"):
                agg[k] += r["mon"][k]
            tlc_trans += r["_tlc_states"][0]
            tlc_states += r["_tlc_states"][1]
            for d in r["impl"]["drift"]:
                d["scn"] = "repotest:" + repotests.test_of_sid(rt["recs"], d["sid"])
                drift.append(d)
            for b in r["mon"]["bad"]:
                b["scn"] = "repotest:" + repotests.test_of_sid(rt["recs"], b["sid"])
                bads.append(b)
        if pid in ("C12", "C08"):
            bad_sids = {(b["scn"], b["sid"]) for b in bads}
            for cb in conf_compare([j["trace"] for j in batches]):
                if pid == "C08":
                    cb["p"] = "C08"
                    cb["why"][0] = "output or handler arguments depend on the contents of a write-only variable (twin runs differ)"
                cb["scn"] = cb["trace"].replace(".ndjson", ".scn")
                cb["ref_scn"] = cb["ref_trace"].replace(".ndjson", ".scn")
                if (cb["ref_scn"], cb["ref_sid"]) in bad_sids:
                    continue               # the eager twin itself misbehaves: not a statement about schedules
                bads.append(cb)
        if pid == "C12":
            # verdict-level twin comparison (events included): stimuli of the fam_sched twins sit at schedule-independent points (before a line is fed,
            # or inside handlers), so a contradiction that only a non-eager schedule shows is a dependence on the readiness schedule
            scn_of = {sid_: j["scn"] for j in batches for sid_ in j["sids"]}
            by_sid = {}
            for b in bads:
                by_sid.setdefault(b["sid"], []).append(b)
            twins = {}
            for sid_, m_ in meta.items():
                if m_.get("family") == "fam_sched" and "conf_key" in m_:
                    twins.setdefault(m_["conf_key"], []).append(sid_)
            for key_, sids_ in twins.items():
                eager = [x for x in sids_ if tuple(meta[x]["sig"][2:4]) == (0, 0)]
                if not eager or any(x in by_sid for x in eager):
                    continue
                for x in sids_:
                    if x in eager or x not in by_sid:
                        continue
                    b0 = by_sid[x][0]
                    bads.append({"p": "C12", "sid": x, "at": b0["at"], "scn": scn_of[x], "ref_scn": scn_of[eager[0]], "ref_sid": eager[0], "twin_verdict": True,
                                 "why": ["a contradiction appears only under a non-eager readiness schedule of the same scenario", b0["p"], b0["why"]]})
        if pid == "C20":
            for hb in hist_compare([j["trace"] for j in batches]):
                hb["scn"] = hb["trace"].replace(".ndjson", ".scn")
                bads.append(hb)
        mine = [b for b in bads if has_tag(b, pid)]
        others = [b for b in bads if not has_tag(b, pid)]
        # ---- verdict
        violations, known_hits = [], []
        seen_sid = set()
        os.makedirs(REPLAYS, exist_ok=True)
        for b in mine:
            key = (b["scn"], b["sid"])
            if key in seen_sid:
                continue
            seen_sid.add(key)
            if b["scn"].startswith("repotest:"):
                name = b["scn"][9:]
                fp = fingerprint(b)
                hit = [k for k in known if k["p"] == pid and k["fp"] == fp]
                if hit:
                    known_hits.append((hit[0], b))
                    continue
                again = [repotests.rerun_one(name, work, str(i)) for i in range(2)]
                if not all(a and any(has_tag(x, pid) for x in a["mon"]["bad"]) for a in again):
                    raise MachineryError("violation of %s in repository test %s did not reproduce: %s" % (pid, name, json.dumps(b)[:400]))
                path = os.path.join(REPLAYS, "%s-%d-%s.test" % (pid, seed, name))
                open(path, "w").write("repotest %s\n# %s\n" % (name, json.dumps(b)[:1000]))
                violations.append((path, b))
                continue
            text = extract_scenario(b["scn"], b["sid"])
            if "ref_sid" in b:
                text = extract_scenario(b["ref_scn"], b["ref_sid"]) + text
            if "members" in b:
                for msid, mtf in b["members"]:
                    text += extract_scenario(mtf.replace(".ndjson", ".scn"), msid)
            fp = fingerprint(b)
            hit = [k for k in known if k["p"] == pid and k["fp"] == fp]
            if hit:
                known_hits.append((hit[0], b))
                continue
            if not confirm(exes, text, pid, work, eager_sid=b.get("ref_sid") if b.get("twin_verdict") else None):
                raise MachineryError("violation of %s in scenario %s did not reproduce when run alone: %s" % (pid, b["sid"], json.dumps(b)[:400]))
            path = os.path.join(REPLAYS, "%s-%d-%s.scn" % (pid, seed, b["sid"]))
            open(path, "w").write(text)
            violations.append((path, b))
            if len(violations) >= 5:
                break
        for k, b in {k["fp"]: (k, b) for k, b in known_hits}.values():
            lines_out.append("KNOWN-FINDING: property=%s %s" % (pid, k["text"]))
        for path, b in violations:
            lines_out.append("VIOLATION property=%s replay=%s" % (pid, path))
            lines_out.append("  reason: %s (scenario %s, record %s)" % (why_text(b["why"])[:300], b["sid"], b["at"]))
        # ---- evidence
        samples = []
        for s in scenarios[:3]:
            samples.append({"family": s.meta.get("family"), "scenario_text": s.text()[:1500]})
        nontrivial = agg["txns"] + agg["evs"]
        ev = {
            "property_id": pid, "tier": tier, "seed": seed, "level": "model_checking",
            "coverage": {
                "states": sum(r["distinct"] for r in mc_runs) + tlc_states,
                "transitions": sum(r["generated"] for r in mc_runs) + tlc_trans,
                "traces_validated_against_impl": agg["scenarios"] + rt_scen,
                "samples": samples,
                "evaluations": agg["scenarios"] + sum(r.get("evaluations", 0) for r in mc_runs),
                "distinct_nontrivial": len({json.dumps(meta[s].get("sig", s), sort_keys=True, default=str) for s in meta}) if meta else 0,
                "rule": spec.get("rule", "") + " | distinct_nontrivial counts scenarios with distinct generator signatures; "
                        "monitor activity: %d command transactions, %d event transactions, %d output units matched" % (agg["txns"], agg["evs"], agg["units"]),
                "exhaustive": all(r.get("exhaustive", False) for r in mc_runs) if mc_runs else False,
                "model_checking_runs": [{k: r[k] for k in ("name", "distinct", "generated", "wall_s", "exhaustive", "depth") if k in r} for r in mc_runs],
                "mc_states": sum(r["distinct"] for r in mc_runs),
                "trace_validation_states": tlc_states,
                "impl_steps_validated": agg["steps"],
                "impl_steps_skipped_after_drift": agg["skipped"],
                "impl_conformance": "exact" if not drift else "drift",
                "first_drift": drift[:2],
                "monitor_unclassified": agg["uncl"],
                "monitor_lost_at_end": agg["lostend"],
                "families": fam_counts,
                "edge_covers": [json.loads(x) for x in sorted({json.dumps(s.meta["edge_info"], sort_keys=True) for s in scenarios if "edge_info" in s.meta})],
                "repository_tests_recorded": rt["tests"], "repository_tests_not_recorded": rt.get("not_recorded", []),
                "repository_test_steps_validated": rt_steps, "repository_test_scenarios": rt_scen,
                "harness_crashes": crashes,
                "violations_of_other_properties_seen": sorted({b["p"] for b in others}),
                "step_grain": not noproj,
                "checker_cmd": "tlc -workers 1 -config spec/CatTrace.cfg spec/CatTrace.tla (CAT_TRACE=<recorded ndjson>)",
            },
            "assumptions": spec.get("assumptions", []) + props.COMMON_ASSUMPTIONS,
            "wall_s": round(time.time() - t0, 2),
            "violations": len(violations),
        }
        os.makedirs(EVID, exist_ok=True)
        with open(os.path.join(EVID, "%s.json" % pid), "w") as f:
            json.dump(ev, f, indent=1)
        for l in lines_out:
            print(l)
        print("%s tier=%s seed=%d: %d scenarios, %d impl steps validated, drift=%d, violations=%d, known=%d, wall=%.1fs" % (
            pid, tier, seed, agg["scenarios"], agg["steps"], len(drift), len(violations), len(known_hits), time.time() - t0))
        return 1 if violations else 0
    finally:
        if not os.environ.get("VERIF_KEEP"):
            shutil.rmtree(work, ignore_errors=True)
        else:
            print("kept", work)


def replay(pid, path):
    work = scratch_dir("replay-")
    try:
        if path.endswith(".test"):
            name = open(path).read().split()[1]
            res = repotests.rerun_one(name, work)
            print(json.dumps({"bad": res["mon"]["bad"], "drift": res["impl"]["drift"][:2]}, indent=1)[:4000])
            if any(has_tag(b, pid) for b in res["mon"]["bad"]):
                print("VIOLATION property=%s replay=%s" % (pid, path))
                return 1
            return 0
        exes = build_harness(os.path.join(work, "bin"))
        exes.pop("noproj", None)
        res = run_scenario_file(exes, path, work)
        mine = [b for b in res["mon"]["bad"] if has_tag(b, pid)]
        if pid in ("C12", "C08"):
            mine += conf_compare([os.path.join(work, "replay.ndjson")])
        if pid == "C12":
            order = re.findall(r"^scenario (\d+)", open(path).read(), re.M)
            if len(order) > 1 and twin_verdict(res, int(order[0])):
                mine.append({"p": "C12", "why": "a contradiction appears only under a non-eager readiness schedule"})
        if pid == "C20":
            mine += hist_compare([os.path.join(work, "replay.ndjson")])
        print(json.dumps({"bad": res["mon"]["bad"], "drift": res["impl"]["drift"][:2]}, indent=1)[:4000])
        if mine:
            print("VIOLATION property=%s replay=%s" % (pid, path))
            return 1
        return 0
    finally:
        shutil.rmtree(work, ignore_errors=True)


def main(argv):
    try:
        if not argv:
            print(__doc__)
            return 2
        if argv[0] == "replay":
            return replay(argv[1], argv[2])
        if argv[0] == "selftest":
            import selftest
            return selftest.main(argv[1:])
        pid = argv[0]
        tier = os.environ.get("VERIF_TIER", "quick")
        seed = int(os.environ.get("VERIF_SEED", "1"))
        i = 1
        while i < len(argv):
            if argv[i] == "--tier":
                tier = argv[i + 1]; i += 2
            elif argv[i] == "--seed":
                seed = int(argv[i + 1]); i += 2
            else:
                i += 1
        if pid not in props.PROPS:
            print("unknown property", pid)
            return 2
        if pid == "C17":
            import c17
            import driver as me
            return c17.check(tier, seed, me)
        return check_property(pid, tier, seed)
    except MachineryError as e:
        print("MACHINERY FAILURE:", e)
        return 2
    except Exception:
        traceback.print_exc()
        return 2
