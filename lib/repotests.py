"""The repository's own test programs as a source of executions: each tests/test_*.c is linked, unmodified, against
harness/catrec.c (link-time wrapping of the public API) and $REPO/src/cat.c; what it does is recorded in the trace format of
catdrv and validated by the same trace specification (CatTrace: CatImpl at step grain + the CatMon monitors)."""
import glob
import os
import re
import subprocess
from concurrent.futures import ThreadPoolExecutor

from catlib import *

RECORDER = os.path.join(VERIF, "harness", "catrec.c")
API = ["cat_init", "cat_service", "cat_is_busy", "cat_is_hold", "cat_is_unsolicited_buffer_full", "cat_trigger_unsolicited_event",
       "cat_trigger_unsolicited_read", "cat_trigger_unsolicited_test", "cat_hold_exit", "cat_search_command_by_name",
       "cat_search_command_group_by_name", "cat_search_variable_by_name", "cat_get_processed_command", "cat_is_unsolicited_event_buffered"]


def test_sources():
    return sorted(glob.glob(os.path.join(REPO, "tests", "test_*.c")))


def qcap_of(name):
    """ring capacity the repository's build gives this test (CMakeLists.txt COMPILE_DEFINITIONS)"""
    try:
        cm = open(os.path.join(REPO, "CMakeLists.txt")).read()
    except OSError:
        return 1
    m = re.search(r"set_target_properties\(\s*%s\s+PROPERTIES\s+COMPILE_DEFINITIONS\s+\"CAT_UNSOLICITED_CMD_BUFFER_SIZE=(\d+)\"" % re.escape(name), cm)
    return int(m.group(1)) if m else 1


def build_and_record(outdir, sanitize=True, only=None):
    """Returns list of {name, trace, rc, build_ok, log}; sids of test number i are 1000*i + 1, +2, ..."""
    os.makedirs(outdir, exist_ok=True)
    srcs = test_sources()
    if only is not None:
        srcs = [s for s in srcs if os.path.basename(s)[:-2] in only]

    def one(arg):
        i, src = arg
        name = os.path.basename(src)[:-2]
        exe = os.path.join(outdir, name)
        trace = os.path.join(outdir, name + ".ndjson")
        cmd = ["clang", "-O1", "-g", "-w", "-fno-omit-frame-pointer", "-DCAT_VERIF", "-DCAT_UNSOLICITED_CMD_BUFFER_SIZE=((size_t)(%d))" % qcap_of(name),
               "-I", os.path.join(REPO, "src"), src, os.path.join(REPO, "src", "cat.c"), RECORDER, "-o", exe] + ["-Wl,--wrap=" + f for f in API]
        if sanitize:
            cmd[1:1] = ["-fsanitize=address,undefined", "-fno-sanitize-recover=all"]
        p = subprocess.run(cmd, stdout=subprocess.PIPE, stderr=subprocess.STDOUT, text=True, timeout=600)
        if p.returncode != 0:       # the recorder's projection reads the public struct: retry at the observable grain
            p = subprocess.run(cmd[:1] + ["-DNO_PROJ"] + cmd[1:], stdout=subprocess.PIPE, stderr=subprocess.STDOUT, text=True, timeout=600)
        if p.returncode != 0:
            return {"name": name, "build_ok": False, "log": p.stdout[-3000:], "trace": None, "rc": None, "base": 1000 * i}
        env = dict(os.environ, CATREC_OUT=trace, CATREC_SID=str(1000 * i), CATREC_TIMEOUT="60",
                   ASAN_OPTIONS="detect_leaks=0:abort_on_error=0", UBSAN_OPTIONS="print_stacktrace=1:abort_on_error=1")
        if os.path.exists(trace):
            os.unlink(trace)
        try:
            r = subprocess.run([exe], stdout=subprocess.PIPE, stderr=subprocess.STDOUT, text=True, timeout=300, env=env, cwd=outdir)
            rc, log = r.returncode, r.stdout[-2000:]
        except subprocess.TimeoutExpired:
            rc, log = -9, "timeout"
        os.unlink(exe)
        return {"name": name, "build_ok": True, "log": log, "trace": trace if os.path.exists(trace) else None, "rc": rc, "base": 1000 * i}

    allsrcs = test_sources()
    with ThreadPoolExecutor(max_workers=NCPU) as ex:
        return list(ex.map(one, [(allsrcs.index(s) + 1, s) for s in srcs]))


def example_sources():
    return sorted(glob.glob(os.path.join(REPO, "example", "*.c")))


def example_input(src):
    """stdin for an example program: every request form of every name its descriptor mentions, some junk, then AT#QUIT."""
    text = open(src).read()
    names = []
    for m in re.finditer(r'\.name\s*=\s*"([^"]+)"', text):
        if m.group(1) not in names:
            names.append(m.group(1))
    lines = []
    for nm in names:
        if nm == "#QUIT":
            continue
        for sfx in ["", "?", "=?", "=1", "=1,2,\"abc\"", "=\"hello\"", "=0x10,-3"]:
            lines.append("AT" + nm + sfx + ("\r\n" if len(lines) % 3 == 0 else "\n"))
    lines += ["AT\n", "\n", "ATZ\n", "AT+\n", "at#help\n", "AT#H\n", "AT#QUIT\n"]
    return "".join(lines).encode()


def build_and_record_examples(outdir, sanitize=True):
    """The example programs (stdin driven, leave through AT#QUIT), recorded like the tests. sids 900000 + 1000 * i."""
    os.makedirs(outdir, exist_ok=True)

    def one(arg):
        i, src = arg
        name = "example_" + os.path.basename(src)[:-2]
        exe = os.path.join(outdir, name)
        trace = os.path.join(outdir, name + ".ndjson")
        cmd = ["clang", "-O1", "-g", "-w", "-fno-omit-frame-pointer", "-DCAT_VERIF", "-I", os.path.join(REPO, "src"), src,
               os.path.join(REPO, "src", "cat.c"), RECORDER, "-o", exe] + ["-Wl,--wrap=" + f for f in API]
        if sanitize:
            cmd[1:1] = ["-fsanitize=address,undefined", "-fno-sanitize-recover=all"]
        p = subprocess.run(cmd, stdout=subprocess.PIPE, stderr=subprocess.STDOUT, text=True, timeout=600)
        if p.returncode != 0:
            p = subprocess.run(cmd[:1] + ["-DNO_PROJ"] + cmd[1:], stdout=subprocess.PIPE, stderr=subprocess.STDOUT, text=True, timeout=600)
        base = 900000 + 1000 * i
        if p.returncode != 0:
            return {"name": name, "build_ok": False, "log": p.stdout[-3000:], "trace": None, "rc": None, "base": base}
        env = dict(os.environ, CATREC_OUT=trace, CATREC_SID=str(base), CATREC_TIMEOUT="60",
                   ASAN_OPTIONS="detect_leaks=0:abort_on_error=0", UBSAN_OPTIONS="print_stacktrace=1:abort_on_error=1")
        if os.path.exists(trace):
            os.unlink(trace)
        try:
            r = subprocess.run([exe], input=example_input(src), stdout=subprocess.PIPE, stderr=subprocess.STDOUT, timeout=120, env=env, cwd=outdir)
            rc, log = r.returncode, r.stdout[-2000:].decode("latin-1")
        except subprocess.TimeoutExpired:
            rc, log = -9, "timeout"
        os.unlink(exe)
        return {"name": name, "build_ok": True, "log": log, "trace": trace if os.path.exists(trace) else None, "rc": rc, "base": base}

    with ThreadPoolExecutor(max_workers=NCPU) as ex:
        return list(ex.map(one, list(enumerate(example_sources(), 1))))


def validate(recs, outdir, nbatch=None, tlc_timeout=900):
    """Concatenate the recorded traces into batches and validate each with CatTrace. Returns list of result dicts."""
    have = [r for r in recs if r["trace"]]
    sizes = {r["name"]: os.path.getsize(r["trace"]) for r in have}
    nbatch = nbatch or max(1, min(NCPU, len(have)))
    bins = [[] for _ in range(nbatch)]
    load = [0] * nbatch
    for r in sorted(have, key=lambda r: -sizes[r["name"]]):
        k = load.index(min(load))
        bins[k].append(r)
        load[k] += sizes[r["name"]]
    jobs = []
    for k, b in enumerate(bins):
        if not b:
            continue
        path = os.path.join(outdir, "batch%d.ndjson" % k)
        with open(path, "w") as f:
            for r in b:
                f.write(open(r["trace"]).read())
        jobs.append((path, [r["name"] for r in b]))

    def work(j):
        res = validate_trace(j[0], "CatTrace", timeout=tlc_timeout)
        res["_tests"] = j[1]
        res["_trace"] = j[0]
        return res

    with ThreadPoolExecutor(max_workers=NCPU) as ex:
        return list(ex.map(work, jobs))


def test_of_sid(recs, sid):
    for r in recs:
        if r["base"] < sid < r["base"] + 1000:
            return r["name"]
    return "?"


# which of the repository's tests exercise which property (quick tier; the thorough tier records all of them for every property)
RELEVANT = {
    "C01": ["test_parse", "test_run", "test_order", "test_shortcuts"],
    "C02": ["test_parse", "test_shortcuts", "test_order", "test_search_cmd"],
    "C03": ["test_write_string_buffer", "test_write_hex_buffer", "test_read_args", "test_test_args"],
    "C04": ["test_write_int_range", "test_write_uint_range", "test_write_hex_range", "test_write_parse"],
    "C05": ["test_write_string_buffer", "test_write_hex_buffer"],
    "C06": ["test_write", "test_read", "test_test"],
    "C07": ["test_read_args", "test_write_parse"],
    "C08": ["test_var_access"],
    "C09": ["test_parse", "test_test_only"],
    "C10": ["test_return_read", "test_return_write", "test_return_run", "test_return_test"],
    "C11": ["test_unsolicited_read", "test_unsolicited_test", "test_unsolicited_read_stress"],
    "C12": ["test_unsolicited_read", "test_unsolicited_read_stress"],
    "C13": ["test_unsolicited_read_buffer", "test_unsolicited_read_stress"],
    "C14": ["test_hold_state"],
    "C15": ["test_unsolicited_read", "test_hold_state"],
    "C16": ["test_mutex"],
    "C18": ["test_hold_state", "test_parse", "test_unsolicited_read"],
    "C19": ["test_cmd_list", "test_test_args", "test_test"],
    "C20": ["test_order", "test_implicit_write"],
}


EXAMPLES_FOR = {"C13", "C19", "C10", "C01"}      # quick tier: the example programs are recorded for these properties


def stage(pid, tier, work):
    """Record and validate the repository tests relevant to pid.  Returns {tests, results, recs}; never raises for a test that
    does not build or fails its own assertions (that is the test suite's business) - whatever it recorded is validated."""
    only = None if tier == "thorough" else RELEVANT.get(pid, [])
    if only is not None and not only:
        return {"tests": [], "results": [], "recs": []}
    d = os.path.join(work, "repotests")
    recs = build_and_record(d, only=only)
    if tier == "thorough" or pid in EXAMPLES_FOR:
        recs += build_and_record_examples(d)
    res = validate(recs, d, nbatch=None if tier == "thorough" else 2)
    return {"tests": [r["name"] for r in recs if r["trace"]], "results": res, "recs": recs,
            "not_recorded": [r["name"] for r in recs if not r["trace"]]}


def rerun_one(name, work, tag=""):
    d = os.path.join(work, "repotest-rerun" + tag)
    if name.startswith("example_"):
        # the example programs are recorded by their own builder (stdin driven); keep only the one asked for
        recs = [r for r in build_and_record_examples(d) if r["name"] == name]
    else:
        recs = build_and_record(d, only=[name])
    res = validate(recs, d, nbatch=1)
    return res[0] if res else None


if __name__ == "__main__":
    import json
    import sys
    w = scratch_dir("repotests-")
    recs = build_and_record(w) + build_and_record_examples(w)
    for r in recs:
        if not r["build_ok"] or r["rc"] != 0 or not r["trace"]:
            print("TEST", r["name"], "build_ok=%s rc=%s trace=%s" % (r["build_ok"], r["rc"], bool(r["trace"])), r["log"][-400:])
    res = validate(recs, w)
    tot = {"steps": 0, "scenarios": 0, "skipped": 0, "txns": 0, "units": 0, "evs": 0, "uncl": 0, "lostend": 0}
    for r in res:
        for k in ("steps", "scenarios", "skipped"):
            tot[k] += r["impl"][k]
        for k in ("txns", "units", "evs", "uncl", "lostend"):
            tot[k] += r["mon"][k]
        for d in r["impl"]["drift"]:
            print("DRIFT", test_of_sid(recs, d["sid"]), json.dumps(d)[:600])
        for b in r["mon"]["bad"]:
            print("BAD", test_of_sid(recs, b.get("sid", -1)), json.dumps(b)[:600])
        for u in r["mon"]["ulog"]:
            print("UNCL", json.dumps(u)[:300])
    print(tot)
    if "--keep" in sys.argv:
        print("kept", w)
    else:
        import shutil
        shutil.rmtree(w, ignore_errors=True)
