#!/usr/bin/env python3
"""Reproduce the five pinned-tree defects of DESIGN.md section 7 on $VERIF_REPO (default /repo).

Prints, per defect, the failing input and what the real code did.  Exit status 0 always: this is a
demonstration script, the registered checks are what decide the properties.
"""
import os, sys, shutil
sys.path.insert(0, os.path.join(os.path.dirname(os.path.abspath(__file__)), "..", "lib"))
from catlib import *

d = scratch_dir("repro-")
try:
    exes = build_harness(d, ks=(2,))
    exe = exes[2]
    scs = []
    # 1: ambiguous abbreviation followed by '='
    s = Scenario(1, [Cmd("+TA", hx=True), Cmd("+TB", hx=True), Cmd("Z", hx=True)], qcap=2)
    s.feed("AT+T=ATZ\n").settle(); scs.append(s)
    # 2: 64-bit wrap of a decimal argument
    s = Scenario(2, [Cmd("+SET", vars=[Var(UINT, 1, RW, mem=b"\x00")])], qcap=2)
    s.feed("AT+SET=18446744073709551621\n").settle(); scs.append(s)
    s = Scenario(21, [Cmd("+SH", vars=[Var(HEX, 4, RW, mem=bytes(4))])], qcap=2)
    s.feed("AT+SH=0x10000000000000005\n").settle(); scs.append(s)
    # 3: service returns OK with an event still queued
    s = Scenario(3, [Cmd("+BAD"), Cmd("+U", vars=[Var(UINT, 1, RW, mem=b"\x05")])], qcap=2)
    s.trig(0, "r").trig(1, "r").svc(1).qbuf(1, "r").settle(); scs.append(s)
    # 4: is_busy says idle while an event line is half written
    s = Scenario(4, [Cmd("+U", vars=[Var(UINT, 1, RW, mem=b"\x05")])], qcap=2, auto="b")
    s.trig(0, "r").svc(8).settle(); scs.append(s)
    # 5: command of a disabled group is listed
    s = Scenario(5, [(False, [Cmd("+L", hx=True)]), (True, [Cmd("+G2", hx=True)])], qcap=2)
    s.hs(0, "x", ret=R_LIST).feed("AT+L\n").settle().feed("AT+G2\n").settle(); scs.append(s)
    sf = os.path.join(d, "s.scn"); tf = os.path.join(d, "t.ndjson")
    write_scenarios(sf, scs)
    rc, err = run_harness(exe, sf, tf)
    print("harness rc", rc, err[-500:])
    for recs in split_scenarios(read_trace(tf)):
        sid = recs[0]["sid"]
        out = output_bytes(recs)
        print("scenario", sid, "output", out)
        for r in recs:
            if r["e"] == "api":
                for e in r["ev"]:
                    if e["k"] in ("cmd", "mem", "crash"):
                        print("   ", {k: e[k] for k in e if k in ("k", "kind", "c", "ret", "before", "after")})
                if r["f"] in ("is_busy", "is_buffered") or (r["f"] == "svc" and sid == 3):
                    print("   ", r["f"], "->", r["ret"], "evs", [(e["k"], e.get("b")) for e in r["ev"]])
finally:
    shutil.rmtree(d, ignore_errors=True)
