#!/bin/sh
# Verify the tool chain and pre-parse the specifications. Builds nothing that depends on /repo.
set -e
cd "$(dirname "$0")"
command -v tlc >/dev/null
command -v tla-sany >/dev/null
command -v clang >/dev/null
command -v python3 >/dev/null
command -v apalache-mc >/dev/null
for m in CatTrace MC_Line MC_Ext MC_Fn CatThreadsTrace; do
    (cd spec && tla-sany $m.tla >/dev/null 2>&1) || { echo "specification $m does not parse"; exit 1; }
done
echo "setup ok"
